"""Re-run every recorded seeded change against the current checks (quick tier of the property it breaks):

  python3 tools/seeded_all.py [name ...]

Each change is applied to a scratch copy of /repo (removed afterwards); seeded/<name>/meta.json is updated (it is left
untouched when the patch no longer applies to the current /repo: see meta.repo_base / meta.superseded).
"""
import json
import os
import sys

HERE = os.path.dirname(os.path.dirname(os.path.abspath(__file__)))
sys.path.insert(0, HERE)
from tools.seeded import verify  # noqa: E402


def main():
    names = sys.argv[1:] or sorted(os.listdir(os.path.join(HERE, "seeded")))
    rows = []
    for n in names:
        sdir = os.path.join(HERE, "seeded", n)
        if not os.path.exists(os.path.join(sdir, "meta.json")):
            continue
        meta = json.load(open(os.path.join(sdir, "meta.json")))
        if meta.get("superseded"):
            print(f"== {n}: superseded by {meta['superseded']} (see meta.repo_base)")
            rows.append((n, "superseded"))
            continue
        print(f"== {n}")
        m = verify(sdir, [meta["property"]])
        rows.append((n, m.get("detection", {}).get(f"{meta['property']}:quick", {}).get("exit")))
    print("\nSUMMARY")
    for n, r in rows:
        print(f"  {n:8s} {r}")


if __name__ == "__main__":
    main()
