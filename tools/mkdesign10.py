"""(Re)write section 10 of DESIGN.md from SENSITIVITY.json and seeded/*/meta.json:  python3 tools/mkdesign10.py"""
import json
import os

HERE = os.path.dirname(os.path.dirname(os.path.abspath(__file__)))
MARK = "## 10. Sensitivity: which checks catch which changes"

STRENGTHENED = [
    ("seeded/C17", "method-form operator inside the value of a keyword argument", "C17 (and C19, C15) generators now cover every AST child position: keyword values, dict values, tuple/list elements, starred elements"),
    ("seeded/C02", "sibling lambdas sharing a name across a SelectMany that carries its binder forward", "C02 'carry-forward' shape with deliberate name coincidences; 'nested-chain' shape"),
    ("seeded/C18", "negative constant index beyond the start of a literal (original raises, change silently shifts)", "C18 compares under a total semantics (absorbing ERR value) and plants out-of-range negative indices"),
    ("seeded/C10, C10-b", "types leaking between queries through a shared mutable default", "free names in the grammar, typed history preludes inside each C10 case, harness empties mutable defaults per case, Hypothesis 'Flaky' = violation"),
    ("seeded/C07", "typed method named like a stream member (value, Where, ...)", "C07 renames the shared method per case to names of ObjectStream members"),
    ("seeded/C08", "dataclass with string (forward-reference) annotations", "C08 models are real modules; Info has string annotations"),
    ("seeded/C11", "lru_cache of parsed string lambdas (shared AST patched in place)", "C11 makes lambda texts unique per case, adds a 'same step on every dataset' operation"),
    ("seeded/C04", "flat set instead of scope stack for bound names", "C04 lets inner binders re-use the outer parameter name and uses the bare outer parameter afterwards"),
    ("seeded/C05", "comprehension binders ignored when the parameter only occurs in the element", "C05 helper bodies with comprehensions over constant iterables (range)"),
    ("seeded/C06", "dataclass field list taken from fields() instead of the signature", "C06 dataclass variants (init=False, keyword-only first) with inspect.Signature.bind as oracle"),
    ("seeded/C01", "source-recovery cache keyed on the code object (first call's captures baked in)", "C01 builds every program twice with different captured constants; C04 'call-again' history step"),
    ("seeded/C11-b", "execution moves query metadata from a dropped empty MetaData onto the shared source node", "C11 operation weights: QMetaData directly on the newest stream, more empty MetaData"),
    ("seeded/C05-b", "argument nodes shared between uses after inlining (sequential instead of simultaneous substitution; the mutant also loops forever)", "C05 inner called lambdas that use their parameter twice; per-case watchdog in the harness (non-termination = violation)"),
    ("seeded/C06-b", "shallow copy shares a constructor call's argument list between two uses", "C06 routes the constructor through a helper / called lambda that uses it twice; defaulted fields that calls may skip"),
    ("seeded/C13-b", "check_ast skips lambdas of nested operators", "C13 capture entry points two lambdas below the passed one"),
    ("seeded/C17-b", "an AST node object shared between two positions of the input (the transformer memoises by node identity)", "C17 inputs are DAGs: equal sub-trees are merged into one shared node object before the pass runs"),
    ("seeded/C01-b", "record (dataclass / NamedTuple) constructor with a trailing field that has a default and is omitted by the call", "C01 record classes with optional trailing fields (Q3 / QN3 and an OMITTED sentinel in the python-direct run)"),
    ("seeded/C18-b", "called lambda whose default value indexes a literal by a name that is free only in that default", "typed generator: default values of called lambdas may mention outer variables and a free scalar k0; more defaulted called lambdas"),
    ("seeded/C03-b", "two lambdas with the same argument names on one physical line after re-layout", "C03 random re-layout of every family (line breaks at any token boundary) and varied dataset variable names"),
    ("seeded/C01-c", "nested operator whose lambda re-uses the enclosing lambda's argument name, the outer variable used afterwards, same method name on both classes with different defaults", "typed model: scaled() on Evt, Jet and Trk with different parameter order and defaults; generator shape 'outer variable used after a nested operator' (also caught by C07 unchanged)"),
    ("seeded/C02-c", "top-level `or` in the earlier of two adjacent filters", "typed generator `filter_body`: half of all Where predicates get deliberate top-level boolean structure (or / and / not / conditional / chained comparison)"),
    ("seeded/C03-c", "the passed lambda is filed under another token than the method name (keyword argument, conditional arm, helper call on the line)", "C03 layout families: lambda passed by keyword, lambdas in both arms of a conditional expression, lambda through a helper call on the line (same and different argument names). The same-argument variants exposed the genuine defect D31; after its fix the seeded change is harmless"),
    ("seeded/C05-c", "helper from another scope whose free names mean something else in the query lambda's module", "C05 helpers built by a factory with a free constant / free callee, while the module defines the same name differently; names left in the query are read in the helper's scope"),
    ("seeded/C06-c", "comprehension target named like a captured variable that the iterable uses", "C06 callable form: module constant named like the loop variable, used inside the iterable (also caught by C04 unchanged)"),
    ("seeded/C09-c", "class call-back looked up on the class that defines an inherited method", "C09 model: Jet and Trk inherit eta() from Base; class-level call-backs on Base and/or the subclasses"),
    ("seeded/C10-c", "two dict literals with the same keys and different value types; the second feeds a conditional", "C10 classifier: branch types that are evident from the text (constants, comparisons, defined keys of followable dict literals, constant tuple indices) must pass; generator form pairing same-key dict literals with such conditionals"),
    ("seeded/C14-c", "the package is the First() of a sequence of packages and the projection reaches it only after substitution", "typed generator: packages may be produced as First(Select(seq, w: package)); this also exposed the genuine defect D32 (attribute form)"),
    ("seeded/C17-c", "operator call inside the callee expression of a call", "C17 (and C19): callee positions - immediately applied lambda, lambda picked from a list, lambda handed through a helper - in the random grammar and in the exhaustive stratum"),
    ("seeded/C18-c", "a lambda-valued argument applied twice with different arguments (shared node rewritten in place)", "typed generator `higher_order`: (lambda f: f(a1) + f(a2))(lambda p: body) in C02 / C18"),
    ("seeded/C19-c", "one-argument call of a function whose name is a piece of a shortcut name", "C19: 30 look-alike function names (pieces, other case, longer names) that must stay unchanged"),
    ("seeded/C07-d", "a @staticmethod of a typed class called through an object", "C07 model: methods declared @staticmethod / @classmethod, receivers spelled this / me (the latter exposed the genuine defect D33)"),
    ("seeded/C08-d", "a typed collection whose element type is Any, followed by one more collection operator", "C08 model always has a method without return annotation and an Iterable[Any] / MyIt[Any] source"),
    ("seeded/C01-d", "two Where meeting in the simplifier, one with a top-level or (same idea as C02-c, reached through the whole pipeline)", "C01: a filter placed directly on a filtered stream is a disjunction in 60% of the cases; C02 catches it unchanged"),
    ("seeded/C03-d", "mis-attributed lambdas that differ only by an operator inside a nested lambda using the outer argument", "C03 families: nested-lambda operator twins; lambdas using a variable of the enclosing function (the latter exposed the residual of D31 fixed by the third commit)"),
    ("seeded/C04-d", "untransportable capture inside the receiver chain of a parameterized call obj.m[T](...)", "C04 item shapes e.pick(REF).get[int](1) and e.pick(1).get[float](REF)"),
    ("seeded/C05-d", "helper whose body is annotated assignment(s) + return", "C05 helper styles that are NOT a single return (annotated assignment, two statements: must stay calls by name), keyword-only parameter, constant of the module (the last two exposed the genuine defects D36 and D35)"),
    ("seeded/C09-d", "processor of a registered function returns a shorter call", "C09: second registered function fn2(tag, scale=1.0) whose processor may drop the defaulted argument"),
    ("seeded/C12-d", "sync value() re-runs the query when the executor raises a RuntimeError (sub)class", "C12 executors raise one of six exception classes (RuntimeError, NotImplementedError, ValueError, KeyError, OSError families, plain Exception)"),
    ("seeded/C18-d", "renaming pass plus a lambda with keyword-only parameters one of which has no default", "typed generator: called lambdas with keyword-only parameters (C02 / C18); exposed the genuine defect D37"),
    ("seeded/C20-d", "string constants / identifiers that differ only up to Unicode normalisation", "C20 edits: look-alike text (NFKC/NFC/NFD forms, full-width letters, ligatures, composed vs decomposed accents) in string constants, names and attributes"),
    ("seeded/C01-e", "a helper with a defaulted parameter called by keyword whose parameter name is bound a second time in the query", "C01: keyword-called helpers (also nested in each other) at the root of numeric Select bodies; C02 catches it unchanged"),
    ("seeded/C02-e", "one lambda node in two call positions, inlined on a later re-visit (shallow copy of the body)", "C02 already produced the shape (sequence-valued / lambda-valued arguments used twice) but the mutant returns a CYCLIC tree that made the check itself crash: the check now reports a result tree that cannot be walked as a violation"),
    ("seeded/C03-e", "mis-attributed twin lambdas whose names and constants are first mentioned in a different order", "C03 attribute-order twins `(a.real + k) // (a.imag + m)` vs `(a.imag + k) // (a.real + m)`"),
    ("seeded/C04-e", "memoised expansion of an inlined helper goes stale when the helper's captured name is re-bound", "C04 items hg(e.n) / ha(e.n) / hv(e.n): names captured by an inlined one-line helper (global, class constant, closure variable), combined with the rebinding history and the call-again step"),
    ("seeded/C05-e", "helpers two deep, argument expression spelled like the inner helper's parameter and like the binder of a lambda inside it", "C05 two-level shape: inner helper with a lambda, outer helper passing an argument expression over names drawn from the same 3-name pool"),
    ("seeded/C06-e", "if clauses of a comprehension re-ordered ('cheap cuts first') when an earlier clause loops over a sub-collection and a later one relies on it as a guard", "typed generator: guard pairs - first clause a nested comprehension / lambda over a member sequence, second clause `First(seq) == First(seq)`"),
    ("seeded/C08-e", "partially quoted return annotation Iterable['X'] / Box['X']", "C08 renders a third of the generic return annotations partially quoted (typing caches emptied per case)"),
    ("seeded/C14-e", "the lambda that takes a package apart has a defaulted keyword-only parameter the call omits (no longer inlined)", "C14 enables called lambdas with keyword-only parameters in its producer / consumer chains"),
    ("seeded/C20-e", "hash of a flattened token stream without list / node end markers: f(g(a), b) and f(g(a, b)) collide", "C20 re-bracketing edits: same leaves in the same order with a list boundary moved (next sibling into the preceding call / tuple / list / boolean chain and back, currying f(a, b) <-> f(a)(b), arithmetic re-association, a < b < c <-> a < (b < c), g() <-> g, last parameter -> keyword-only, item into a nested dict)"),
    ("seeded/C17-e", "a positional argument of a method-form operator call that is directly another method-form operator call (stale argument snapshot)", "C17: the seed of Aggregate is an arbitrary int expression (often directly Count / Sum of a sequence, in either form); three more exhaustive positions (operator call directly as argument of a method-form / function-form / chained operator call)"),
    ("seeded/C03-f", "source text of one-line defs memoised per (module, qualified name): a helper re-defined later in the file gets the first version's source", "C03 families: a one-line def re-defined under the same name (module level and inside a function, the old version optionally used again through a saved reference); same-named one-line defs in both arms of an if inside a builder that is called several times"),
    ("seeded/C01-f", "identity SelectMany (a flatten) elided like an identity Select", "typed model: Evt.groups() is a sequence of sequences, so element variables of sequence type exist and SelectMany(src, lambda g: g) / First over nested sequences are generated (C01, C02, C14, C18)"),
    ("seeded/C08-f", "arithmetic of two bool operands typed bool instead of int (promotion table with bool as lowest rank)", "C08 arithmetic: operands may be bool (comparisons, and/or results, True / False), operators // and % added; bool counts as int"),
    ("seeded/C15-f", "wrappers in default values of lambda parameters are skipped (traversal does not enter the `arguments` helper node)", "C15 grammar: lambdas with a defaulted second parameter (positional / keyword-only) whose default contains wrappers, plus conditionals, subscripts, slices, starred / callee positions, unary / boolean operands and the look-alike method obj.MetaData(x, {})"),
    ("seeded/C13-f", "textual post-processing of the rendered container rewrites the word inf inside nested strings", "C13 code-like text: words that mean something to python or to a number parser (inf, nan, None, True, lambda, 1e999, 0x1F, escapes, format fields) glued with blanks, brackets, quotes and operators; also as bytes"),
    ("seeded/C07-f", "keyword-only / positional-only parameters of a typed signature are skipped", "C07 signatures: in a quarter of the signatures the first parameters are positional-only and / or the last ones keyword-only (defaults need not be trailing); call shapes respect python's rules for them; the reference binder (inspect) needs no change"),
    ("seeded/C10-f", "a lambda given as text is whitespace-normalised before parsing (also inside string literals)", "untyped grammar (C10, C20): string constants and dictionary keys with runs of blanks and literal tabs inside the quotes"),
    ("seeded/C09-f", "dictionaries whose keys are not identifiers are returned before their values are visited", "C09 dictionary results with keys that are not identifiers (blanks, keywords, empty, dashes, repeated)"),
    ("seeded/C11-f", "an override executor is cached as an annotation on the executed stream's top node, which descendants share (dump and item type unchanged)", "C11 snapshots include where the executor / dataset references sit on the nodes of every stream and what they refer to (C12 catches the change unchanged)"),
    ("seeded/C14-f", "dictionary literals keyed by non-negative integers are no longer resolved", "typed generator: dictionaries keyed by integers, written in an order that is not the positional one ({1: a, 0: b}[0])"),
    ("seeded/C17-f", "an EMPTY caller-supplied function_names list is treated as 'not given' (the default operator list is used)", "C17: in a fifth of the cases the function is called with its second parameter - any subset of the operator names plus two look-alikes, also the empty list; the reference transform, the residual scan and the second application use the same list"),
    ("seeded/C01-g", "keyword arguments of a method called directly on First() are dropped by the simplifier", "typed generator (untyped flavour): member templates with keyword arguments (`.scaled(off=1)`, `.scaled(2.0, off=1)`), so First(seq).m(k=v) is generated in C02 / C14 / C18; C01: a keyword-argument method directly on First() of a member sequence as Select body"),
    ("seeded/C03-g", "bracket counting ignores the token type: python 3.12 f-string pieces that are exactly one bracket character are counted", "C03: strings and f-strings with unbalanced brackets INSIDE the lambda body (f'[{x}, {x})', f'({x}', '((') are a documented-supported layout, optionally with a second call on the line"),
    ("seeded/C04-g", "enum test moved from the owner of the attribute to its value: a class constant holding an enum member is left as a free name", "C04 values: enum members HELD by a captured variable / class constant / module attribute (plain Enum and IntEnum: not transportable); this exposed the genuine defect D41"),
    ("seeded/C05-g", "defaults of an inlined helper taken from the wrong end of the defaults list", "C05: any trailing run of number parameters may be defaulted (distinct values), calls omit some / all / none; plus positional-only parameters, keyword-only lambda helpers and starred-tuple calls (the agent's side observations, which exposed the genuine defects D39 and D40)"),
    ("seeded/C07-g", "return type of a registered function recorded on the pre-normalisation call only", "C07: registered functions mk -> Trk and mks -> Iterable[Trk] whose results are receivers / sources of further typed call sites"),
    ("seeded/C08-g", "a non-boolean Where filter inside a nested lambda is accepted (ValueError of lambda following swallowed)", "C08: the non-boolean filter is also planted one level down (`e.jets().Where(lambda j: <non-bool>).Count()` as Select body): must raise ValueError"),
    ("seeded/C09-g", "keyword arguments of plain function calls are no longer type-followed", "C09: a call site may be handed to a registered (fn3, normalised) or unregistered (sqrt, left as written) function, positionally or by keyword"),
    ("seeded/C11-g", "lambda parameter types written into the shared mutable default of the operator (no earlier stream changes, later derivations do)", "C11: at the end of every history each successful derivation is repeated and must give the same query and item type; lambda pool with free names spelled like other lambdas' parameters (C10 catches the change unchanged)"),
    ("seeded/C12-g", "override executor chosen by truthiness: a falsy callable override is discarded", "C12: every other override is a callable recorder object that is falsy while its log is empty"),
    ("seeded/C14-g", "dict fields named like attributes of python's dict are not projected by attribute", "typed generator: dictionary fields named values / items / keys / get / copy / pop / update (C14, C02, C18); the evaluator reads them as fields"),
    ("seeded/C16-g", "lookup inspects only ast.Call nodes: metadata on a non-Call root is never found", "C16: a bare ObjectStream over a Name node as third root"),
    ("seeded/C17-g", "the receiver of a method-form operator is only visited when it is itself a call", "C17: sequences reached through an index, a conditional or an attribute of a holder object (`x.Select(f)[0].Count()`, `box(s).seq.Sum()`), also in three exhaustive positions"),
    ("seeded/C18-g", "absent attribute on a dict literal that arrives by substitution returns the unvisited (dangling) parameter", "typed generator: every odd projection may reach its literal through a called lambda or First(Select(..)); C18's classifier of permitted index errors follows those bindings"),
    ("seeded/C20-g", "hash rendered from vars(node) in insertion order: nodes built with fields in another order hash differently", "C20: equal-structure rendering with every node re-created and its fields assigned in reverse order"),
    ("seeded/C01-h", "constant folding of conditionals in the simplifier chooses the branch with `is True` (a truthy non-bool test takes the wrong arm)", "typed generator: the test of a conditional may be a constant of another type (1, 2, 0, 1.5, 0.0, 'on', ''); C02 and C01 catch it"),
    ("seeded/C02-h", "the scope stack of the renaming pass is wiped at a parameterless lambda (`del stack[-0:]`)", "typed generator: parameterless called lambdas `(lambda: X)() + Y` with a use of the variables in scope to their right"),
    ("seeded/C03-h", "docstring filter of one-line functions also drops constant assignments (and refuses `return <literal>`)", "C03 families: a def with a constant assignment before its return (module global of the same name present or not), a one-line def returning a literal"),
    ("seeded/C06-h", "capture check of called lambdas ignores a name that an argument both binds and uses free", "C05: the operator lambda around a helper call may bind the very name that a lambda / comprehension inside the helper binds, the arguments using it free and as a binder of their own (caught by C05; the mechanism lives in the helper-inlining code)"),
    ("seeded/C07-h", "a lambda parameter spelled like a registered function is typed Callable", "C07: lambda parameter pools with fn, mk, mks, abs, len"),
    ("seeded/C08-h", "and/or typed by its operands when they agree", "C08: and/or over operands that are not bool (two numbers, a number and anything)"),
    ("seeded/C09-h", "only a literal-constant index unwraps a typed sequence ([-1] is a UnaryOp)", "C09: receivers picked out of a typed sequence by a constant index 0 / 1 / -1 / -2"),
    ("seeded/C10-h", "conditional with a numeric true branch and an untyped false branch refused (order dependent)", "C10 classifier: a branch about which nothing can be known on an untyped stream (variable, attribute chain, method call on one) is compatible with itself and with numbers, in either order: must pass"),
    ("seeded/C13-h", "captured-variable lookup through ChainMap(globals, nonlocals): a module global hides the closure variable", "C13 capture module: a module global spelled like the closure variable (C04 catches the change unchanged through its D23 witness)"),
    ("seeded/C14-h", "nested Select whose written source is a bare reference is no longer merged with the Select it resolves to", "typed generator: producers may package a SEQUENCE of packages built by a nested Select (C14, C02, C18); First() is not applied to sequences of sequences of packages"),
    ("seeded/C16-h", "QMetaData decides 'unchanged' on the text form of the values", "C16 value pool: values that print alike ('1' next to 1, 'True' next to True, '[0]' next to [0])"),
    ("seeded/C17-h", "traversal treats ast.arguments as a leaf: operator calls in default values of lambda parameters are not rewritten", "C17: lambdas with a defaulted second parameter (positional / keyword-only), two more exhaustive positions"),
    ("seeded/C19-h", "fold parameters renamed one level too shallow when the sequence mentions v / acc", "C19: sequences that mention a variable of an enclosing lambda (named v / w / acc)"),
    ("seeded/C20-h", "structure text leaves out None fields: x[1:], x[:1], x[::1] collide", "untyped grammar: slices with parts left out (C10, C20); C20 edits: the parts of a slice rotated / swapped"),
    ("seeded/C01-i", "comprehension loop variable no longer hides a captured variable in the if clauses", "C04: shadowing comprehension targets that are used in (several) if clauses; C01 modules define globals named like the binders of the queries (C04 catches the change)"),
    ("seeded/C02-i", "depth bookkeeping of the simplifier not exception safe: after a refused query the instance skips the preparation of later ones", "C02 harness: in a quarter of the cases the shared simplifier instance has refused a query before (its index error caught by the caller)"),
    ("seeded/C05-i", "the 'names bound around us' stack shared between the query's and the helper's rewriter", "C05: the module constant a helper uses may be spelled like a binder of the query lambda (e, j, v, x)"),
    ("seeded/C06-i", "and-splitting of comprehension conditions takes or-groups apart", "typed generator: comprehension conditions with boolean structure of their own (`a and (b or c)`, `(a or b) and c`, `not (a and b) or c`)"),
    ("seeded/C07-i", "item picked out of a typed sequence by a non-literal index keeps the sequence type", "C07: receivers picked by a literal / negative / computed index"),
    ("seeded/C08-i", "field of a dictionary literal looked up by position among the constant keys only", "C08: dictionary literals with a ** / computed entry in front of the field that is read by attribute; repeated keys"),
    ("seeded/C09-i", "callbacks skipped for a call that is not fully resolved (lambda argument of a non-collection method)", "C09: method Jet.calib(tag, f: Callable) called with a lambda"),
    ("seeded/C12-i", "the copy-on-write walker drops the entries of a node list that are not nodes (the None key of a ** spread)", "C12 lambda pool: dictionary displays with a ** spread in front of / between named entries, a called lambda with a None keyword-only default; C15 grammar: the same (C15 catches the change too)"),
    ("seeded/C13-i", "str subclasses 'normalised' with str() (a (str, Enum) member emitted as its text form)", "C13: in a sixth of the in-lambda cases the value is an instance of a subclass of str (with a text form of its own: must be refused) or of float (embedded as the plain number)"),
    ("seeded/C16-i", "QMetaData keeps a reference to the caller's dict", "C16: in half of the histories ONE dict object is re-used for all QMetaData calls and changed after each call"),
    ("seeded/C17-i", "a 'scope-aware' rewrite leaves seq.Op(...) alone when a lambda parameter is called Op", "C17: lambda parameters spelled like operators (Count, Where, Sum, First); for those cases only the structural checks run (a back end reads Op(...) by name, python's scoping does not)"),
    ("seeded/C19-i", "attribute access treated as a leaf: a shortcut below the attribute that is the sequence argument is not lowered", "C19: sequences of the form hold(<int expr>, <seq expr>).seq"),
    ("seeded/C01-j", "the arg_N counter is moved to the highest index in use instead of one past it", "C01 / C02: binder naming schemes argn (all names arg_0..arg_5) and argmix (hand-written names next to arg_N names)"),
    ("seeded/C06-j", "a ** spread among the keywords of a dataclass / NamedTuple constructor call is silently dropped", "C06: malformed kinds 'spread' (** mapping in the call) and 'twice' (keyword naming a positionally bound field; exposed the genuine defect D66)"),
    ("seeded/C07-j", "a QMetaData call that records nothing new returns a stream without item type", "C07: metadata calls (QMetaData empty / once / repeated, MetaData) before and between the stages"),
    ("seeded/C08-j", "a subscript with a negative or computed index on a typed sequence keeps the sequence type", "C08: index texts 0, 1, -1, 2 - 1, -(1), len(seq) - 1"),
    ("seeded/C09-j", "Where no longer hands known_types down: call sites on variables of enclosing lambdas are not seen", "C09: call sites on variables of ENCLOSING lambdas inside nested Select / Where / SelectMany lambdas"),
    ("seeded/C10-j", "is_arg looks at the innermost frame only", "C10: the module that holds the callable has a global spelled like the lambda's parameter"),
    ("seeded/C13-j", "file names coerced with str()", "C13: file and tree names may be bytes"),
    ("seeded/C14-j", "the starred-element guard walks the whole literal", "C14 (typed generator flag starred_calls): (lambda *r: Count(r))(*seq) as a value, also as a package member"),
    ("seeded/C17-j", "shared default keyword list extended by every rewritten call", "C17: a result that is not a finite tree (ast.dump recursion) is reported as a violation instead of a harness error; the keyword-argument cases of D57 reach it"),
    ("seeded/C18-j", "defaults of a called lambda aligned with args only, not posonlyargs + args", "typed generator: positional-only parameters before defaulted ones in called lambdas; literal projections routed through (lambda v, /, i=K: v[i])(literal)"),
    ("seeded/C19-j", "explicit Aggregate(seq, seed, lambda) calls are not walked", "C19: user-written Aggregate calls with shortcuts in the sequence, the seed and the accumulator lambda"),
    ("seeded/C20-j", "empty MetaData wrappers removed before hashing", "C20: edits that wrap the first argument of a call in MetaData(x, {}) / Select(x, lambda x: x)"),
    ("seeded/C02-k", "defaults of a called lambda merged last: they win over the values given at the call", "typed generator: a defaulted parameter of a called lambda is GIVEN at the call (by position or keyword), the body uses it and the given value differs from the default"),
    ("seeded/C03-k", "the upward scan for the caller stops one line short of the top of the file", "C03: the file may hold only the statement (the harness' definitions live in another module), from line 1 on"),
    ("seeded/C06-k", "named tuple = tuple is a DIRECT base", "C06: named tuple classes derived from a NamedTuple / namedtuple class; also the malformed kind 'keyword-only field given by position' (exposed the genuine defect D73)"),
    ("seeded/C07-k", "the condition of a conditional expression is not type-followed", "C07: conditional expressions with call sites in the condition"),
    ("seeded/C09-k", "a one-element tuple of [param]s is collapsed to its element", "C09: parameter texts 'x', / (5,) / ('p', 'q'), / () / [1, 2]"),
    ("seeded/C14-k", "a called attribute is never read out of a dictionary literal", "typed generator flag callable_fields (C14, C02): {'f_a': <lambda>, ..}.f_a(x) - a field that holds a function, read by attribute and called on the spot"),
    ("seeded/C03-l", "callable objects that carry __wrapped__ are silently unwrapped", "C03 family 70: a decorator written as a class (functools.update_wrapper(self, fn)) whose instances change the result"),
    ("seeded/C08-l", "names handed down to a nested operator lambda come from the table the transformer was created with", "C08: the parameter of a called lambda is used one lambda further down (inside the lambda of a collection operator in its body); called lambdas drawn more often"),
    ("seeded/C09-l", "a called lambda followed in a throw-away type scope (its result typed Any)", "C09: receivers that are the RESULT of a lambda called where it is written; receivers reached through a method annotated Optional[Jet] (exposed the genuine defect D80)"),
    ("seeded/C10-l", "a conditional with two equal non-numeric branches loses its type", "C10: conditionals (also behind a dict lookup / tuple index) as branches of conditionals"),
    ("seeded/C11-l", "call-back metadata of a nested operator put on the CALLER's stream object in place", "C11: in a third of the cases the event class has no class-level callback (which otherwise replaces the type follower's working stream first), so callbacks in nested lambdas are the only ones that touch it"),
    ("seeded/C14-l", "the constant-index test looks at the slice before substitution", "typed generator (C14, C02): the position reaches the subscript through a defaulted / keyword parameter of a called lambda"),
    ("seeded/C16-l", "lookup_query_metadata also answers from MetaData blocks on the path", "C16: MetaData blocks that use the key names of the query metadata"),
    ("seeded/C18-l", "stack_frame without try/finally: frames of a refused query stay on the argument stack", "C02 / C14 / C18 (shared semantic check): after an index error on the re-used transformer a probe query with a free variable spelled like each lambda parameter of the refused query must keep that variable; refusals from inside applied lambdas added to the instance's history"),
    ("seeded/C19-l", "ast.arguments treated as a leaf", "C19: a shortcut as default value of a lambda parameter (positional / keyword-only)"),
    ("seeded/C08-c", "generic subclass with more type parameters than its base uses", "C08 skeleton: Tag(Box[K], Generic[K,V]), Tag2(Box[V], ...), Swap(Pair[U,T], ...), HalfPair(Pair[T,int]), It2(Iterable[V], ...), TagInts(Tag[int,V]); class names taken from typing. This extension also exposed the genuine defects D29 and D30"),
]


def main():
    sens = json.load(open(os.path.join(HERE, "SENSITIVITY.json"))) if os.path.exists(os.path.join(HERE, "SENSITIVITY.json")) else {}
    lines = [MARK, "",
             "Two kinds of deliberately broken copies of iris-hep/func_adl were used (never committed to `/repo`; scratch copies outside",
             "`/repo` and `/verif`, removed afterwards): hand-written mutants of the mechanism each property is anchored in",
             "(`tools/mutants.py`, full table in `SENSITIVITY.md`), and changes seeded by fresh sub-agents that were given only the property",
             "text and a scratch worktree (`seeded/<id>/`: patch.diff, demo.py, notes.md, meta.json; each confirmed by the verifier: the",
             "repository's suite passes with the change, the agent's demo fails with it and passes without it).", ""]
    lines += ["### 10.1 Hand-written mutants (quick tier)", "", "| property | mutants | equivalent (must stay quiet) | caught | caught although the repo suite passes | missed |", "|---|---|---|---|---|---|"]
    for prop in sorted(sens):
        rows = sens[prop]
        eq = [r for r in rows if r["equivalent"]]
        real = [r for r in rows if not r["equivalent"]]
        caught = [r for r in real if r["check_exit"] == 1]
        hidden = [r for r in caught if r["suite_passes"]]
        missed = [r["mutant"] for r in real if r["check_exit"] != 1]
        lines.append(f"| {prop} | {len(rows)} | {len(eq)} | {len(caught)}/{len(real)} | {len(hidden)} | {', '.join(missed) or '-'} |")
    lines += ["", "Every mutant that is not marked equivalent is caught by the quick tier. The equivalent ones stay quiet, as they must; the reason why",
              "each of them does not change behaviour inside the property's domain is given next to it in `tools/mutants.py` / `SENSITIVITY.md`",
              "(several became equivalent only through a `fix:` commit, e.g. the patch-back code that fix 45d624a made unobservable). The uncertain",
              "ones were also run against the thorough tier, which stays quiet too.", ""]
    lines += ["### 10.2 Independently seeded changes", "", "| change | breaks | needs | caught by (quick tier) |", "|---|---|---|---|"]
    sd = os.path.join(HERE, "seeded")
    for name in sorted(os.listdir(sd)):
        mp = os.path.join(sd, name, "meta.json")
        if not os.path.exists(mp):
            continue
        m = json.load(open(mp))
        det = ", ".join(k.split(":")[0] for k, v in m.get("detection", {}).items() if v["exit"] == 1) or "NOT CAUGHT"
        lines.append(f"| seeded/{name} | {m['property']} | {m.get('needs', '')} | {det} |")
    lines += ["", "### 10.3 Seeded changes that were missed at first, and what was strengthened", "",
              "A check that misses a realistic change is too weak; each of these led to a generator or oracle extension (never to a",
              "special case for the seeded input), after which the change is caught by the registered quick command.", "",
              "| change | what it needs | strengthening |", "|---|---|---|"]
    for a, b, c in STRENGTHENED:
        lines.append(f"| {a} | {b} | {c} |")
    lines += ["", "Caught at the first attempt: seeded/C19, C19-b, C15, C15-b, C20, C20-b, C16, C16-b, C13, C14, C14-b, C09, C09-b, C12, C12-b, C03, C02-b, C04-b, C04-c, C07-b, C07-c, C08-b, C11-c, C12-c, C13-c, C15-c, C16-c, C20-c, C02-d, C06-d, C10-d, C11-d, C13-d, C14-d, C15-d, C16-d, C17-d, C19-d, C07-e, C09-e, C10-e, C11-e, C12-e, C13-e, C15-e.",
              "Recurring lesson: most seeded changes need either a *naming coincidence* (same binder / method / variable name in two roles) or",
              "*process-level history* (a cache or shared default filled by an earlier query); generators must produce both on purpose.", ""]
    p = os.path.join(HERE, "DESIGN.md")
    s = open(p).read()
    if MARK in s:
        s = s[: s.index(MARK)]
    if not s.endswith("\n\n"):
        s += "\n"
    s += "---------------------------------------------------------------------------------------------------\n\n" if not s.rstrip().endswith("-" * 20) else ""
    open(p, "w").write(s + "\n".join(lines) + "\n")


if __name__ == "__main__":
    main()
