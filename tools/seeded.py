"""Verify and record a seeded property-breaking change produced by a sub-agent.

  python3 tools/seeded.py import C19 /tmp/wt/C19-out "needs: ..."   -> seeded/C19/ (patch.diff demo.py notes.md meta.json)
  python3 tools/seeded.py run C19 [more property ids ...]           -> re-run checks against seeded/C19

Everything happens in a scratch copy of /repo outside /repo and /verif which is removed afterwards.
"""
import json
import os
import shutil
import subprocess
import sys
import tempfile

HERE = os.path.dirname(os.path.dirname(os.path.abspath(__file__)))
PY = "/venv/bin/python"


def scratch():
    d = tempfile.mkdtemp(prefix="vfseed_")
    repo = os.path.join(d, "repo")
    shutil.copytree("/repo", repo, ignore=shutil.ignore_patterns(".git", "__pycache__", ".pytest_cache"))
    subprocess.run(["git", "init", "-q"], cwd=repo)
    return d, repo


def run(cmd, cwd, env=None, timeout=3600):
    e = {**os.environ, "PYTHONDONTWRITEBYTECODE": "1"}
    e.update(env or {})
    p = subprocess.run(cmd, cwd=cwd, capture_output=True, text=True, env=e, timeout=timeout)
    return p.returncode, (p.stdout + p.stderr)


def verify(sdir, props, tier="quick"):
    meta_path = os.path.join(sdir, "meta.json")
    meta = json.load(open(meta_path)) if os.path.exists(meta_path) else {}
    d, repo = scratch()
    try:
        shutil.copy(os.path.join(sdir, "demo.py"), os.path.join(repo, "demo_seeded.py"))
        shutil.copy(os.path.join(sdir, "demo.py"), os.path.join(repo, "demo.py"))  # some demos import themselves by name in a child process
        rc0, out0 = run([PY, "demo_seeded.py"], repo, {"PYTHONPATH": repo})
        refreshed = None
        rc, out = run(["git", "apply", os.path.join(sdir, "patch.diff")], repo)
        if rc:
            # the context moved (a later repair touched the lines nearby): apply with fuzz and store the refreshed patch
            rc, out = run(["patch", "-p1", "-F3", "--no-backup-if-mismatch", "-i", os.path.join(sdir, "patch.diff")], repo)
            if not rc:
                _, refreshed = run(["git", "diff", "--", "func_adl"], repo)
        if rc:
            print("PATCH DOES NOT APPLY to the current /repo (meta.json left untouched):", out)
            return meta
        rcs, outs = run([PY, "-m", "pytest", "-q", "-p", "no:cacheprovider", "--timeout=900"], repo, {"PYTHONPATH": repo})
        rc1, out1 = run([PY, "demo_seeded.py"], repo, {"PYTHONPATH": repo})
        if refreshed is not None:
            if rcs == 0 and rc0 == 0 and rc1 != 0:
                open(os.path.join(sdir, "patch.diff"), "w").write(refreshed)  # still the same seeded change: keep the refreshed patch
            else:
                print("PATCH DOES NOT APPLY to the current /repo (applied with fuzz it is no longer the seeded change; meta.json left untouched)")
                return meta
        meta.update(
            applies=True,
            suite_with_change=(outs.strip().splitlines() or ["?"])[-1],
            suite_passes=rcs == 0,
            demo_without_change_exit=rc0,
            demo_with_change_exit=rc1,
            demo_with_change_tail=out1.strip().splitlines()[-3:],
            confirmed=(rcs == 0 and rc0 == 0 and rc1 != 0),
        )
        print(f"suite: {meta['suite_with_change']}; demo without={rc0} with={rc1}; confirmed={meta['confirmed']}")
        det = meta.setdefault("detection", {})
        for prop in props:
            rcc, outc = run([PY, "-m", "vf.run", prop, "--tier", tier], HERE, {"VF_REPO": repo, "VF_NO_EVIDENCE": "1", "VERIF_SEED": os.environ.get("VERIF_SEED", "1")})
            first = [ln.strip() for ln in outc.splitlines() if ln.strip().startswith("[")][:1]
            det[f"{prop}:{tier}"] = {"exit": rcc, "first_violation": first[0][:400] if first else None}
            print(f"check {prop} {tier}: exit={rcc} {first[0][:300] if first else ''}")
            if rcc == 2:
                print(outc[-2500:])
        json.dump(meta, open(meta_path, "w"), indent=1)
        return meta
    finally:
        shutil.rmtree(d, ignore_errors=True)


def main():
    cmd = sys.argv[1]
    if cmd == "import":
        name, src, needs = sys.argv[2], sys.argv[3], sys.argv[4]
        prop = name.split("-")[0]
        sdir = os.path.join(HERE, "seeded", name)
        os.makedirs(sdir, exist_ok=True)
        for f in ("patch.diff", "demo.py", "notes.md"):
            shutil.copy(os.path.join(src, f), os.path.join(sdir, f))
        meta = {"property": prop, "needs": needs, "source": "independent sub-agent given only the property text and a scratch worktree",
                "ran": "tools/seeded.py: scratch copy of /repo; demo.py without change; git apply patch.diff; full pytest suite; demo.py with change; quick check(s) with VF_REPO=<copy>"}
        json.dump(meta, open(os.path.join(sdir, "meta.json"), "w"), indent=1)
        verify(sdir, [prop])
    elif cmd == "run":
        name = sys.argv[2]
        tier = os.environ.get("VF_TIER", "quick")
        props = sys.argv[3:] or [name.split("-")[0]]
        verify(os.path.join(HERE, "seeded", name), props, tier)


if __name__ == "__main__":
    main()
