"""Hand-written realistic mutants per property: (file, old, new) single-occurrence text edits."""

AGG = "func_adl/ast/aggregate_shortcuts.py"
UTL = "func_adl/ast/func_adl_ast_utils.py"

MD = "func_adl/ast/meta_data.py"

HSH = "func_adl/ast/ast_hash.py"

OS_ = "func_adl/object_stream.py"
UA = "func_adl/util_ast.py"
TBR = "func_adl/type_based_replacement.py"

FS = "func_adl/ast/function_simplifier.py"

UT = "func_adl/util_types.py"

EDS = "func_adl/event_dataset.py"

MUTANTS = {
    "C03": [
        {"name": "tokens-till-ignores-square-brackets", "edits": [(UA, "                elif t.string == \"[\":\n                    brackets += 1\n                elif t.string == \"]\":\n                    brackets -= 1\n", "")]},
        {"name": "first-good-lambda-wins", "edits": [(UA, "        if len(good_lambdas) > 1:\n            raise ValueError(", "        if len(good_lambdas) > 99:\n            raise ValueError(")]},
        {"name": "caller-name-filter-skipped", "edits": [(UA, "            lambdas_on_a_line[caller_name]\n            if caller_name is not None\n            else", "            lambdas_on_a_line[caller_name]\n            if caller_name is not None and False\n            else")]},
        {"name": "no-backtracking", "edits": [(UA, "        if func_name is None:\n            lambda_line -= 1\n", "        if func_name is None:\n            break\n")]},
        {"name": "newline-detection-inverted", "edits": [(UA, "        if t.type == tokenize.NEWLINE or t.string == \"\\n\":\n            saw_new_line = True", "        if t.type == tokenize.NEWLINE:\n            saw_new_line = True")]},
        {"name": "one-line-def-again", "edits": [(UA, "            [\"lambda\"] if is_lambda else [\"def\", \"lambda\"]", "            [\"def\", \"lambda\"]")]},
        {"name": "arg-match-by-count", "edits": [(UA, "            lda for lda in lambdas_to_search if lambda_arg_list(lda) == caller_arg_list", "            lda for lda in lambdas_to_search if len(lambda_arg_list(lda)) == len(caller_arg_list)")]},
        {"name": "last-lambda-on-line-only", "edits": [(UA, "            lambdas_on_a_line[func_name.string if func_name is not None else None].append(lda)", "            lambdas_on_a_line[func_name.string if func_name is not None else None] = [lda]")]},
        {"name": "comments-kept", "edits": [(UA, "            # Ignore comments\n            if t.type == tokenize.COMMENT:\n                continue\n", "")], "equivalent": "comments are dropped again by ast.parse"},
    ],
    "C12": [
        {"name": "executor-walks-last-arg", "edits": [(OS_, "            node = node.args[0]  # type: ignore", "            node = node.args[-1] if isinstance(node.args[-1], ast.Call) else node.args[0]  # type: ignore")]},
        {"name": "uncleaned-ast", "edits": [(OS_, "        return await exe(remove_empty_metadata(self._q_ast), title)", "        return await exe(self._q_ast, title)")]},
        {"name": "title-dropped-when-falsy", "edits": [(OS_, "        return await exe(remove_empty_metadata(self._q_ast), title)", "        return await exe(remove_empty_metadata(self._q_ast), title if title and title.isidentifier() else None)")]},
        {"name": "executor-cached-on-class", "edits": [(OS_, "        # Extract the executor from this reference.\n        return getattr(node, executor_attr_name)", "        # Extract the executor from this reference.\n        if getattr(ObjectStream, '_last_exe', None) is None:\n            ObjectStream._last_exe = getattr(node, executor_attr_name)\n        return ObjectStream._last_exe")]},
        {"name": "find-first-of-several", "edits": [(EDS, "            if self.ds is not None:\n                raise Exception(\"AST Query has more than one EventDataset in it!\")", "            if self.ds is not None:\n                return node")]},
        {"name": "removes-all-metadata", "edits": [(MD, "                    if isinstance(d, dict) and len(d) == 0:", "                    if isinstance(d, dict) and len(d) <= 1 and 'cb' not in d:")]},
        {"name": "result-wrapped", "edits": [(OS_, "        return await exe(remove_empty_metadata(self._q_ast), title)", "        r = await exe(remove_empty_metadata(self._q_ast), title)\n        return r if not isinstance(r, (list, tuple)) else list(r)")], "equivalent": "sentinels are opaque objects"},
        {"name": "executed-twice-on-terminal", "edits": [(OS_, "        return await exe(remove_empty_metadata(self._q_ast), title)", "        a = remove_empty_metadata(self._q_ast)\n        if isinstance(a, ast.Call) and getattr(a.func, 'id', '').startswith('ResultP'):\n            await exe(a, title)\n        return await exe(a, title)")]},
        {"name": "exception-rewrapped", "edits": [(OS_, "        return await exe(remove_empty_metadata(self._q_ast), title)", "        try:\n            return await exe(remove_empty_metadata(self._q_ast), title)\n        except Exception as e:\n            raise type(e)(*e.args) from e")]},
        {"name": "executor-during-build", "edits": [(OS_, "        return ObjectStream[ReturnedDataPlaceHolder](\n            function_call(\"ResultParquet\", [self._q_ast, as_ast(columns), as_ast(filename)])\n        )", "        r = ObjectStream[ReturnedDataPlaceHolder](\n            function_call(\"ResultParquet\", [self._q_ast, as_ast(columns), as_ast(filename)])\n        )\n        c = r._get_executor()(r._q_ast, None)\n        c.close()\n        return r")], "equivalent": "creating and closing a coroutine never runs the executor body"},
    ],
    "C11": [
        {"name": "clone-mutates-self", "edits": [(OS_, "        clone = copy.copy(self)\n        clone._q_ast = new_ast", "        clone = copy.copy(self)\n        if isinstance(new_ast, ast.Call) and getattr(new_ast.func, 'id', '') == 'MetaData':\n            self._q_ast = new_ast\n        clone._q_ast = new_ast")]},
        {"name": "qmetadata-no-copy", "edits": [(OS_, "new_self = self.clone_with_new_ast(copy.copy(base_ast), self.item_type)", "new_self = self.clone_with_new_ast(base_ast, self.item_type)")]},
        {"name": "metadata-merges-into-existing-node", "edits": [(OS_, "        return self.clone_with_new_ast(\n            function_call(\"MetaData\", [self._q_ast, as_ast(metadata)]), self.item_type\n        )", "        if isinstance(self._q_ast, ast.Call) and getattr(self._q_ast.func, 'id', '') == 'MetaData' and len(metadata) > 0:\n            self._q_ast.args[1] = as_ast({**ast.literal_eval(self._q_ast.args[1]), **metadata})\n            return self.clone_with_new_ast(self._q_ast, self.item_type)\n        return self.clone_with_new_ast(\n            function_call(\"MetaData\", [self._q_ast, as_ast(metadata)]), self.item_type\n        )")]},
        {"name": "remove-empty-in-place", "edits": [(MD, "        new_node = copy.copy(node)\n        for field, new_value in changes.items():", "        new_node = node\n        for field, new_value in changes.items():")]},
        {"name": "user-ast-not-copied", "edits": [(UA, "        return lambda_unwrap(copy.deepcopy(ast_source))", "        return lambda_unwrap(ast_source)")]},
        {"name": "terminal-shares-columns-node", "edits": [(OS_, "            function_call(\"ResultAwkwardArray\", [self._q_ast, as_ast(columns)])", "            function_call(\"ResultAwkwardArray\", [self._q_ast.args[0] if getattr(getattr(self._q_ast, 'func', None), 'id', '') == 'MetaData' and not ast.literal_eval(self._q_ast.args[1]) else self._q_ast, as_ast(columns)])")], "equivalent": "a new stream may legitimately drop an empty wrapper; older streams are untouched"},
        {"name": "item-type-cached-on-parent", "edits": [(OS_, "        return self.clone_with_new_ast(\n            function_call(\"SelectMany\", [n_stream.query_ast, n_ast]),\n            unwrap_iterable(rtn_type),\n        )", "        self._item_type = self._item_type if rtn_type is Any else self._item_type\n        n = self.clone_with_new_ast(\n            function_call(\"SelectMany\", [n_stream.query_ast, n_ast]),\n            unwrap_iterable(rtn_type),\n        )\n        if getattr(n_stream, '_q_ast', None) is not self._q_ast:\n            self._q_ast = n_stream.query_ast\n        return n")]},
    ],
    "C09": [
        {"name": "method-before-class", "edits": [(TBR, "            for base_obj in [obj_type, call_method]:", "            for base_obj in [call_method, obj_type]:")]},
        {"name": "drop-scan-for-metadata", "edits": [(TBR, "                scan_for_metadata(r.query_ast, add_md)\n", "")]},
        {"name": "select-uses-parent-ast", "edits": [(OS_, "            function_call(\"Select\", [n_stream.query_ast, n_ast]),\n            rtn_type,", "            function_call(\"Select\", [self._q_ast, n_ast]),\n            rtn_type,")]},
        {"name": "where-uses-parent-ast", "edits": [(OS_, "            function_call(\"Where\", [n_stream.query_ast, n_ast]),", "            function_call(\"Where\", [self._q_ast, n_ast]),")]},
        {"name": "processor-result-ignored", "edits": [(TBR, "                    r_stream, r_node = func_info.processor_function(self.stream, r_node)\n                    assert isinstance(r_node, ast.AST)", "                    r_stream, _ignored = func_info.processor_function(self.stream, r_node)\n                    assert isinstance(r_node, ast.AST)")]},
        {"name": "root-rewrite-lost-again", "edits": [(TBR, "                if isinstance(followed, ast.Lambda) and len(call_node.args) == 1:", "                if isinstance(followed, ast.Lambda) and len(call_node.args) == 1 and False:")]},
        {"name": "class-callback-only-first-method", "edits": [(TBR, "                attr = getattr(base_obj, \"_func_adl_type_info\", None)\n                if attr is not None:", "                attr = getattr(base_obj, \"_func_adl_type_info\", None)\n                if attr is not None and not (base_obj is obj_type and getattr(self, '_seen_cls', None) is obj_type):\n                    self._seen_cls = obj_type")]},
        {"name": "param-slice-kept", "edits": [(TBR, "            t_node = ast.Call(func, node.args, node.keywords)\n", "            t_node = ast.Call(node.func if isinstance(slice, ast.Tuple) and len(slice.elts) == 3 else func, node.args, node.keywords)\n")]},
        {"name": "params-as-str", "edits": [(TBR, "            parameters = ast.literal_eval(slice)\n", "            parameters = ast.literal_eval(slice)\n            parameters = parameters if not isinstance(parameters, tuple) else list(parameters)\n")]},
        {"name": "callback-stream-dropped-in-selectmany", "edits": [(OS_, "            function_call(\"SelectMany\", [n_stream.query_ast, n_ast]),", "            function_call(\"SelectMany\", [self.query_ast, n_ast]),")]},
    ],
    "C08": [
        {"name": "binop-float-rule-dropped", "edits": [(TBR, "            elif (t_left == float) or (t_right == float):\n                self._found_types[node] = float\n                self._found_types[t_node] = float\n            elif isinstance(node.op, ast.Div):", "            elif isinstance(node.op, ast.Div):")]},
        {"name": "div-int", "edits": [(TBR, "            elif isinstance(node.op, ast.Div):\n                self._found_types[node] = float\n                self._found_types[t_node] = float", "            elif isinstance(node.op, ast.Div) and False:\n                self._found_types[node] = float\n                self._found_types[t_node] = float")]},
        {"name": "selectmany-not-unwrapped", "edits": [(OS_, "            function_call(\"SelectMany\", [n_stream.query_ast, n_ast]),\n            unwrap_iterable(rtn_type),", "            function_call(\"SelectMany\", [n_stream.query_ast, n_ast]),\n            rtn_type,")]},
        {"name": "first-returns-iterable", "edits": [(TBR, "    def First(self) -> StreamItem:\n        return self.item_type  # type: ignore", "    def First(self) -> StreamItem:\n        return Iterable[self.item_type]  # type: ignore")]},
        {"name": "resolve-ignores-at-class", "edits": [(UT, "        s = build_type_dict_from_type(context_type, at_class)", "        s = build_type_dict_from_type(context_type, None)")]},
        {"name": "compare-any", "edits": [(TBR, "            t_node = self.generic_visit(node)\n            self._found_types[node] = bool\n            self._found_types[t_node] = bool\n            return t_node\n\n        def visit_IfExp", "            t_node = self.generic_visit(node)\n            self._found_types[node] = bool if len(node.ops) == 1 and not isinstance(node.ops[0], ast.NotEq) else Any\n            self._found_types[t_node] = self._found_types[node]\n            return t_node\n\n        def visit_IfExp")]},
        {"name": "generic-crash-again", "edits": [(UT, "    if get_origin(r) is typing.Generic:\n        # `class C(Generic[T])` - there is nothing to inherit from\n        return Any  # type: ignore\n", "")]},
        {"name": "concrete-subclass-any-again", "edits": [(UT, "            if inherited is not Any:\n                return build_type_dict_from_type(inherited, at_class)\n", "")]},
        {"name": "where-accepts-int", "edits": [(OS_, "        if rtn_type != bool:", "        if rtn_type not in (bool, int):")]},
        {"name": "dict-key-type-first-field", "edits": [(TBR, "                self._found_types[node] = dc_types[_slice]\n", "                self._found_types[node] = list(dc_types.values())[0]\n")]},
        {"name": "second-typevar-first", "edits": [(UT, "    for a in zip(generic_type.__parameters__, get_args(t)):\n        d[a[0].__name__] = a[1]", "    for a in zip(generic_type.__parameters__, get_args(t)):\n        d[a[0].__name__] = get_args(t)[0]")]},
        {"name": "subscript-keeps-iterable", "edits": [(TBR, "                inner_type = unwrap_iterable(self.lookup_type(t_node.value))\n", "                inner_type = self.lookup_type(t_node.value)\n")]},
        {"name": "nested-select-item-not-wrapped", "edits": [(TBR, "                return call_node, Iterable[r.item_type]  # type: ignore", "                return call_node, r.item_type  # type: ignore")]},
        {"name": "attr-field-first", "edits": [(TBR, "                self._found_types[node] = dc_types[node.attr]\n", "                self._found_types[node] = dc_types[sorted(dc_types)[0]]\n")]},
    ],
    "C07": [
        {"name": "find-keyword-first", "edits": [(TBR, "    for kw in keywords:\n        if kw.arg == name:", "    for kw in keywords:\n        if kw.arg == name or len(keywords) == 1:")]},
        {"name": "default-from-previous-param", "edits": [(TBR, "                elif param.default is not param.empty:\n                    a = as_literal(param.default)", "                elif param.default is not param.empty:\n                    a = as_literal(prev_default if prev_default is not None else param.default)"), (TBR, "    for param in sig.parameters.values():\n        # The stream operators", "    prev_default = None\n    for param in sig.parameters.values():\n        # The stream operators"), (TBR, "            i_arg += 1\n", "            i_arg += 1\n            prev_default = param.default if param.default is not param.empty and isinstance(param.default, float) else None\n")]},
        {"name": "i-arg-stuck-again", "edits": [(TBR, "            i_arg += 1\n", "")]},
        {"name": "fixup-no-append", "edits": [(TBR, "            for a in node.args[n_old_args:]:\n                orig_ast.args.append(a)", "            for a in node.args[n_old_args + 1:]:\n                orig_ast.args.append(a)")]},
        {"name": "fixup-keeps-keywords", "edits": [(TBR, "            orig_ast.keywords = node.keywords\n", "")]},
        {"name": "known-types-win-again", "edits": [(TBR, "known_types | {var_name: orig_type}", "{var_name: orig_type} | known_types")]},
        {"name": "operators-filled-too", "edits": [(TBR, "                    fill_in_defaults=base_obj.method_class is not ObjectStream,", "                    fill_in_defaults=True,")]},
        {"name": "missing-required-gets-none", "edits": [(TBR, "                else:\n                    raise ValueError(f\"Argument {param.name} is required\")", "                elif i_arg == 0:\n                    raise ValueError(f\"Argument {param.name} is required\")\n                else:\n                    break")]},
        {"name": "function-keywords-kept", "edits": [(TBR, "                r_node, return_annotation = _fill_in_default_arguments(func_info.function, r_node)", "                r_node, return_annotation = _fill_in_default_arguments(func_info.function, r_node, len(r_node.keywords) < 2)")]},
        {"name": "bool-default-as-int", "edits": [(UA, "    return ast.Constant(value=p, kind=None)", "    return ast.Constant(value=int(p) if isinstance(p, bool) else p, kind=None)")]},
    ],
    "C10": [
        {"name": "compare-rebuilt", "edits": [(TBR, "            t_node = self.generic_visit(node)\n            self._found_types[node] = bool\n            self._found_types[t_node] = bool\n            return t_node\n\n        def visit_IfExp", "            t_node = self.generic_visit(node)\n            if len(node.ops) > 1:\n                t_node = ast.Compare(left=node.left, ops=node.ops[:1], comparators=node.comparators[:1])\n            self._found_types[node] = bool\n            self._found_types[t_node] = bool\n            return t_node\n\n        def visit_IfExp")]},
        {"name": "unary-keyerror-again", "edits": [(TBR, "            self._found_types[node] = self.lookup_type(node.operand)\n", "            self._found_types[node] = self._found_types[node.operand]\n")]},
        {"name": "where-is-not-bool", "edits": [(OS_, "        if rtn_type != bool:", "        if rtn_type is not bool and rtn_type is not int:")], "equivalent": "untyped bodies never type to int unless constant arithmetic"},
        {"name": "boolop-any", "edits": [(TBR, "            t_node = super().generic_visit(node)\n            self._found_types[node] = bool\n            self._found_types[t_node] = bool\n\n            return t_node", "            t_node = super().generic_visit(node)\n            self._found_types[node] = bool if len(node.values) == 2 else Any\n            self._found_types[t_node] = bool if len(node.values) == 2 else Any\n\n            return t_node")]},
        {"name": "ast-attr-fold-again", "edits": [(UA, "        if isinstance(value, ast.Constant) and hasattr(value.value, node.attr):", "        if hasattr(value, \"value\") and hasattr(value.value, node.attr):")]},
        {"name": "keyword-order-normalised", "edits": [(TBR, "            t_node = self.generic_visit(node)\n            assert isinstance(t_node, ast.Call)\n            if isinstance(t_node.func, ast.Attribute):", "            t_node = self.generic_visit(node)\n            assert isinstance(t_node, ast.Call)\n            t_node.keywords = sorted(t_node.keywords, key=lambda k: k.arg or '')\n            if isinstance(t_node.func, ast.Attribute):")]},
        {"name": "ifexp-float-promotes-bool", "edits": [(TBR, "            elif t_true in [int, float, Any] and t_false in [int, float, Any]:", "            elif t_true in [int, float, Any, bool] and t_false in [int, float, Any, bool]:")], "equivalent": "accepts more; refusals are not required by the statement"},
        {"name": "ifexp-str-refused", "edits": [(TBR, "            if t_true == t_false:\n                final_type = t_true", "            if t_true == t_false and t_true is not str:\n                final_type = t_true")]},
        {"name": "tuple-index-strict", "edits": [(TBR, "                if len(t_node.value.elts) <= index:", "                if len(t_node.value.elts) - 1 <= index:")]},
        {"name": "dict-star-key-lost", "edits": [(TBR, "                key_index = [\n                    e for e, k in enumerate(t_node.value.keys) if k.value == key  # type: ignore\n                ]", "                key_index = [\n                    e for e, k in enumerate(t_node.value.keys[:2]) if k.value == key  # type: ignore\n                ]")]},
        {"name": "check-ast-off-in-select", "edits": [(OS_, "            self, _local_simplification(parse_as_ast(f, \"Select\")), known_types\n        )\n        check_ast(n_ast)", "            self, _local_simplification(parse_as_ast(f, \"Select\")), known_types\n        )")], "equivalent": "emitting a None constant unchanged is not forbidden by C10 (C13 covers it)"},
        {"name": "lambda-args-copied", "edits": [(TBR, "    return stream, ast.Lambda(l_func.args, new_body), return_type  # type: ignore", "    return stream, ast.Lambda(ast.arguments(posonlyargs=[], args=[ast.arg(arg=var_name)], kwonlyargs=[], kw_defaults=[], defaults=[]), new_body), return_type  # type: ignore")], "equivalent": True},
        {"name": "string-strip-comments", "edits": [(UA, "        a = ast.parse(ast_source.strip())  # type: ignore", "        a = ast.parse(ast_source.split('#')[0].strip())  # type: ignore")]},
    ],
    "C14": [
        {"name": "selectmany-of-selectmany-unvisited", "edits": [(FS, "        return self.visit(new_select_many)", "        return new_select_many")]},
        {"name": "where-of-select-unvisited", "edits": [(FS, "        # Recursively visit this mess to see if the Where needs to move further up.\n        return self.visit(s)", "        return s")]},
        {"name": "attribute-skips-dict", "edits": [(FS, "        if isinstance(visited_value, ast.Dict):\n            r = self.visit_Subscript_Dict_with_value(visited_value, node.attr)", "        if isinstance(visited_value, ast.Dict) and len(visited_value.keys) < 2:\n            r = self.visit_Subscript_Dict_with_value(visited_value, node.attr)")]},
        {"name": "nested-tuple-kept", "edits": [(FS, "            if type(v) is ast.Tuple and is_index:", "            if type(v) is ast.Tuple and is_index and not isinstance(v.elts[min(s.value or 0, len(v.elts) - 1)], ast.Tuple):")]},
        {"name": "select-of-selectmany-unvisited", "edits": [(FS, '        return self.visit(function_call("SelectMany", [source, lambda_select]))', '        return function_call("SelectMany", [source, lambda_select])')]},
        {"name": "first-subscript-not-moved", "edits": [(FS, '        if is_call_of(v, "First"):\n            return self.visit_Subscript_Of_First(v.args[0], s)', '        if is_call_of(v, "First") and not isinstance(s, ast.Constant):\n            return self.visit_Subscript_Of_First(v.args[0], s)')]},
    ],
    "C18": [
        {"name": "index-off-by-one", "edits": [(FS, "        if n >= len(v.elts):\n            raise FuncADLIndexError(\n                f\"Attempt to access the {n}th element of a tuple only\"", "        if n > len(v.elts):\n            raise FuncADLIndexError(\n                f\"Attempt to access the {n}th element of a tuple only\"")]},
        {"name": "variable-index-crashes-again", "edits": [(FS, "            if type(v) is ast.List and is_index:", "            if type(v) is ast.List:")]},
        {"name": "absent-key-raw-str", "edits": [(FS, "        return r if r is not None else ast.Subscript(v, s, ast.Load())", "        return r if r is not None else ast.Subscript(v, s.value, ast.Load())")]},
        {"name": "negative-constant-resolved", "edits": [(FS, "is_index = s.value is None or (type(s.value) is int and s.value >= 0)", "is_index = s.value is None or type(s.value) is int")], "equivalent": "negative indices are UnaryOp nodes in parsed text, never Constant"},
        {"name": "index-error-on-dict", "edits": [(FS, "        return r if r is not None else ast.Subscript(v, s, ast.Load())", "        if r is None:\n            raise FuncADLIndexError('no such key')\n        return r")]},
        {"name": "keyword-call-recursion", "edits": [(FS, "            keyword_asts = {k.arg: self.visit(k.value) for k in call_node.keywords}", "            keyword_asts = {k.arg: self.visit(k.value) for k in call_node.keywords if not isinstance(k.value, ast.Dict)}")]},
    ],
    "C02": [
        {"name": "where-of-select-uncomposed", "edits": [(FS, 'w = function_call("Where", [source, self.visit(convolute(func_g, func_f))])', 'w = function_call("Where", [source, self.visit(func_g)])')]},
        {"name": "convolute-swapped", "edits": [(FS, "    call_g = ast.Call(l_g, [ast.Call(l_f, [f_arg], [])], [])", "    call_g = ast.Call(l_f, [ast.Call(l_g, [f_arg], [])], [])")]},
        {"name": "and-to-or", "edits": [(FS, "arg, ast.BoolOp(ast.And(), [lambda_call(arg, func_f), lambda_call(arg, func_g)])", "arg, ast.BoolOp(ast.Or(), [lambda_call(arg, func_f), lambda_call(arg, func_g)])")]},
        {"name": "where-order-swapped", "edits": [(FS, "[lambda_call(arg, func_f), lambda_call(arg, func_g)]", "[lambda_call(arg, func_g), lambda_call(arg, func_f)]")]},
        {"name": "select-of-selectmany-drops-g", "edits": [(FS, "            func_f, make_Select(lambda_body(func_f), func_g)\n", "            func_f, lambda_body(func_f)\n")]},
        {"name": "lambda-is-true-loose", "edits": [(UA, "    return rl.body.value is True", "    return bool(rl.body.value)")]},
        {"name": "no-unique-binders", "edits": [(FS, "            node = make_binders_unique(node)\n", "")]},
        {"name": "no-keyword-binding", "edits": [(FS, "                for k_name, arg in keyword_asts.items():\n                    self._arg_stack.define_name(k_name, arg)\n", "")]},
        {"name": "identity-select-any-arity", "edits": [(UA, "    if not lambda_test(lam, 1):\n        return False\n\n    b = lambda_unwrap(lam)", "    if not lambda_test(lam):\n        return False\n\n    b = lambda_unwrap(lam)")], "equivalent": True},
        {"name": "selectmany-of-select-as-select", "edits": [(FS, '        w = function_call("SelectMany", [seq, self.visit(convolute(func_g, func_f))])\n        return w', '        w = function_call("Select", [seq, self.visit(convolute(func_g, func_f))])\n        return w')]},
        {"name": "first-attr-no-select", "edits": [(FS, "            first, lambda_build(a, ast.Attribute(value=ast.Name(a, ast.Load()), attr=attr))\n        )\n\n        return self.visit(function_call(\"First\", [select]))", "            first, lambda_build(a, ast.Attribute(value=ast.Name(a, ast.Load()), attr=attr))\n        )\n\n        return self.visit(function_call(\"First\", [first]))")]},
        {"name": "tuple-index-off", "edits": [(FS, "        return copy.deepcopy(v.elts[n])\n\n    def visit_Subscript_List", "        return copy.deepcopy(v.elts[n if n < 2 else n - 1])\n\n    def visit_Subscript_List")]},
        {"name": "dict-first-key", "edits": [(FS, "            if value.value == s:\n                return copy.deepcopy(v.values[index])", "            if value.value == s or index == 1:\n                return copy.deepcopy(v.values[index])")]},
    ],
    "C13": [
        {"name": "double-quote-wrap", "edits": [(UA, "        p_var = repr(p_var)\n", "        p_var = '\"' + p_var.replace('\"', '\\\\\"') + '\"'\n")]},
        {"name": "literal-via-float", "edits": [(UA, "    return ast.Constant(value=p, kind=None)", "    return ast.Constant(value=float(p) if isinstance(p, int) and not isinstance(p, bool) and abs(p) > 2**62 else p, kind=None)")]},
        {"name": "check-allows-none", "edits": [(UA, "g_legal_capture_types = (str, int, float, bool, complex, str, bytes, ModuleType)", "g_legal_capture_types = (str, int, float, bool, complex, str, bytes, ModuleType, type(None))")]},
        {"name": "parquet-filename-strip", "edits": [(OS_, 'function_call("ResultParquet", [self._q_ast, as_ast(columns), as_ast(filename)])', 'function_call("ResultParquet", [self._q_ast, as_ast(columns), as_ast(filename.strip())])')]},
        {"name": "default-float-rounded", "edits": [(TBR, "                    a = as_literal(param.default)", "                    a = as_literal(param.default if not isinstance(param.default, float) else float(str(round(param.default, 12))))")]},
        {"name": "metadata-via-json", "edits": [(OS_, 'function_call("MetaData", [self._q_ast, as_ast(metadata)])', 'function_call("MetaData", [self._q_ast, as_ast(__import__("json").loads(__import__("json").dumps(metadata)) if all(isinstance(v, (str, int)) for v in metadata.values()) else metadata)])')]},
    ],
    "C16": [
        {"name": "replace-not-merge", "edits": [(OS_, '                **getattr(base_ast, "_q_metadata", {}),\n', '')]},
        {"name": "always-descend", "edits": [(MD, "            if not found:\n                super().generic_visit(node)", "            super().generic_visit(node)")]},
        {"name": "no-copy", "edits": [(OS_, "new_self = self.clone_with_new_ast(copy.copy(base_ast), self.item_type)", "new_self = self.clone_with_new_ast(base_ast, self.item_type)")]},
        {"name": "skip-equal-check-inverted", "edits": [(OS_, "            elif found_md != v:", "            elif found_md == v:")]},
        {"name": "qmd-as-metadata", "edits": [(OS_, "            return new_self\n        else:", "            return new_self.MetaData({}) if len(q_metadata) > 2 else new_self\n        else:")]},
    ],
    "C20": [
        {"name": "include-attributes", "edits": [(HSH, "ast.dump(a).encode", "ast.dump(a, include_attributes=True).encode")]},
        {"name": "hash-unparse", "edits": [(HSH, "ast.dump(a).encode", "ast.unparse(a).encode")]},
        {"name": "truncate", "edits": [(HSH, "ast.dump(a).encode", "ast.dump(a)[:4000].encode")]},
        {"name": "id-seed", "edits": [(HSH, "    b = bytearray()\n", "    b = bytearray(str(id(type(a)) % 7 if False else hash('x') % 3).encode())\n")]},
        {"name": "ascii-replace", "edits": [(HSH, 'encode("utf-8")', 'encode("ascii", errors="replace")')]},
        {"name": "no-annotate-fields", "edits": [(HSH, "ast.dump(a).encode", "ast.dump(a, annotate_fields=False).encode")]},
        {"name": "lower", "edits": [(HSH, "ast.dump(a).encode", "ast.dump(a).lower().encode")]},
    ],
    "C15": [
        {"name": "append-after-source", "edits": [(MD, "            self._metadata.append(ast.literal_eval(node.args[1]))\n            return self.visit(node.args[0])", "            r = self.visit(node.args[0])\n            self._metadata.append(ast.literal_eval(node.args[1]))\n            return r")]},
        {"name": "le-one", "edits": [(MD, "if isinstance(d, dict) and len(d) == 0:", "if isinstance(d, dict) and len(d) <= 1:")]},
        {"name": "skip-lambda", "edits": [(MD, "    def visit_Call(self, node: ast.Call):\n        \"\"\"Detect a MetaData call", "    def visit_Lambda(self, node):\n        return node\n\n    def visit_Call(self, node: ast.Call):\n        \"\"\"Detect a MetaData call")]},
        {"name": "in-place-again", "edits": [(MD, "        if len(changes) == 0:\n            return node\n        new_node = copy.copy(node)", "        if len(changes) == 0:\n            return node\n        new_node = node")]},
        {"name": "outer-only", "edits": [(MD, "                    if isinstance(d, dict) and len(d) == 0:\n                        return n.args[0]", "                    if isinstance(d, dict) and len(d) == 0:\n                        return node.args[0]")]},
    ],
    "C19": [
        {"name": "sum-counts", "edits": [(AGG, '"lambda acc,v: acc + v"', '"lambda acc,v: acc + 1"')]},
        {"name": "max-is-min", "edits": [(AGG, '"lambda acc,v: acc if acc > v else v"', '"lambda acc,v: acc if acc < v else v"')]},
        {"name": "max-ge-type", "edits": [(AGG, '"lambda acc,v: acc if acc > v else v"', '"lambda acc,v: acc if acc >= v else v + 0"')], "equivalent": True},
        {"name": "seed-one", "edits": [(AGG, "agg_start = ast.Constant(0, kind=None)", "agg_start = ast.Constant(1, kind=None)")]},
        {"name": "no-visit-arg-sum", "edits": [(AGG, 'return _generate_count_call(self.visit(node.args[0]), "lambda acc,v: acc + v")', 'return _generate_count_call(node.args[0], "lambda acc,v: acc + v")')]},
        {"name": "count-any-arity", "edits": [(AGG, '(node.func.id == "len" or node.func.id == "Count") and (len(node.args) == 1)', '(node.func.id == "len" or node.func.id == "Count") and (len(node.args) >= 1)')]},
        {"name": "method-too", "edits": [(AGG, "        return self.generic_visit(node)", "        if type(node.func) is ast.Attribute and node.func.attr == 'Count' and len(node.args) == 0:\n            return _generate_count_call(self.visit(node.func.value))\n        return self.generic_visit(node)")]},
    ],
    "C17": [
        {"name": "no-generic-visit", "edits": [(UTL, "            node = self.generic_visit(call_node)\n            if node is None", "            node = call_node\n            if node is None")]},
        {"name": "seq-last", "edits": [(UTL, "[node.func.value] + node.args)", "node.args + [node.func.value])")]},
        {"name": "drop-name", "edits": [(UTL, '    "Min",\n', "")]},
        {"name": "prefix-match", "edits": [(UTL, "if node.func.attr not in function_names:", "if not any(node.func.attr.startswith(f) for f in function_names):")]},
        {"name": "case-insens", "edits": [(UTL, "if node.func.attr not in function_names:", "if node.func.attr.lower() not in [f.lower() for f in function_names]:")]},
    ],
}
