"""Hand-written realistic mutants per property: (file, old, new) single-occurrence text edits."""

AGG = "func_adl/ast/aggregate_shortcuts.py"
UTL = "func_adl/ast/func_adl_ast_utils.py"

MD = "func_adl/ast/meta_data.py"

HSH = "func_adl/ast/ast_hash.py"

OS_ = "func_adl/object_stream.py"
UA = "func_adl/util_ast.py"
TBR = "func_adl/type_based_replacement.py"

MUTANTS = {
    "C13": [
        {"name": "double-quote-wrap", "edits": [(UA, "        p_var = repr(p_var)\n", "        p_var = '\"' + p_var.replace('\"', '\\\\\"') + '\"'\n")]},
        {"name": "literal-via-float", "edits": [(UA, "    return ast.Constant(value=p, kind=None)", "    return ast.Constant(value=float(p) if isinstance(p, int) and not isinstance(p, bool) and abs(p) > 2**62 else p, kind=None)")]},
        {"name": "check-allows-none", "edits": [(UA, "g_legal_capture_types = (str, int, float, bool, complex, str, bytes, ModuleType)", "g_legal_capture_types = (str, int, float, bool, complex, str, bytes, ModuleType, type(None))")]},
        {"name": "parquet-filename-strip", "edits": [(OS_, 'function_call("ResultParquet", [self._q_ast, as_ast(columns), as_ast(filename)])', 'function_call("ResultParquet", [self._q_ast, as_ast(columns), as_ast(filename.strip())])')]},
        {"name": "default-float-rounded", "edits": [(TBR, "                    a = as_literal(param.default)", "                    a = as_literal(param.default if not isinstance(param.default, float) else float(str(round(param.default, 12))))")]},
        {"name": "metadata-via-json", "edits": [(OS_, 'function_call("MetaData", [self._q_ast, as_ast(metadata)])', 'function_call("MetaData", [self._q_ast, as_ast(__import__("json").loads(__import__("json").dumps(metadata)) if all(isinstance(v, (str, int)) for v in metadata.values()) else metadata)])')]},
    ],
    "C16": [
        {"name": "replace-not-merge", "edits": [(OS_, '                **getattr(base_ast, "_q_metadata", {}),\n', '')]},
        {"name": "always-descend", "edits": [(MD, "            if not found:\n                super().generic_visit(node)", "            super().generic_visit(node)")]},
        {"name": "no-copy", "edits": [(OS_, "new_self = self.clone_with_new_ast(copy.copy(base_ast), self.item_type)", "new_self = self.clone_with_new_ast(base_ast, self.item_type)")]},
        {"name": "skip-equal-check-inverted", "edits": [(OS_, "            elif found_md != v:", "            elif found_md == v:")]},
        {"name": "qmd-as-metadata", "edits": [(OS_, "            return new_self\n        else:", "            return new_self.MetaData({}) if len(q_metadata) > 2 else new_self\n        else:")]},
    ],
    "C20": [
        {"name": "include-attributes", "edits": [(HSH, "ast.dump(a).encode", "ast.dump(a, include_attributes=True).encode")]},
        {"name": "hash-unparse", "edits": [(HSH, "ast.dump(a).encode", "ast.unparse(a).encode")]},
        {"name": "truncate", "edits": [(HSH, "ast.dump(a).encode", "ast.dump(a)[:4000].encode")]},
        {"name": "id-seed", "edits": [(HSH, "    b = bytearray()\n", "    b = bytearray(str(id(type(a)) % 7 if False else hash('x') % 3).encode())\n")]},
        {"name": "ascii-replace", "edits": [(HSH, 'encode("utf-8")', 'encode("ascii", errors="replace")')]},
        {"name": "no-annotate-fields", "edits": [(HSH, "ast.dump(a).encode", "ast.dump(a, annotate_fields=False).encode")]},
        {"name": "lower", "edits": [(HSH, "ast.dump(a).encode", "ast.dump(a).lower().encode")]},
    ],
    "C15": [
        {"name": "append-after-source", "edits": [(MD, "            self._metadata.append(ast.literal_eval(node.args[1]))\n            return self.visit(node.args[0])", "            r = self.visit(node.args[0])\n            self._metadata.append(ast.literal_eval(node.args[1]))\n            return r")]},
        {"name": "le-one", "edits": [(MD, "if isinstance(d, dict) and len(d) == 0:", "if isinstance(d, dict) and len(d) <= 1:")]},
        {"name": "skip-lambda", "edits": [(MD, "    def visit_Call(self, node: ast.Call):\n        \"\"\"Detect a MetaData call", "    def visit_Lambda(self, node):\n        return node\n\n    def visit_Call(self, node: ast.Call):\n        \"\"\"Detect a MetaData call")]},
        {"name": "in-place-again", "edits": [(MD, "            if len(changes) == 0:\n                return node\n            new_node = copy.copy(node)", "            if len(changes) == 0:\n                return node\n            new_node = node")]},
        {"name": "outer-only", "edits": [(MD, "                    if isinstance(d, dict) and len(d) == 0:\n                        return n.args[0]", "                    if isinstance(d, dict) and len(d) == 0:\n                        return node.args[0]")]},
    ],
    "C19": [
        {"name": "sum-counts", "edits": [(AGG, '"lambda acc,v: acc + v"', '"lambda acc,v: acc + 1"')]},
        {"name": "max-is-min", "edits": [(AGG, '"lambda acc,v: acc if acc > v else v"', '"lambda acc,v: acc if acc < v else v"')]},
        {"name": "max-ge-type", "edits": [(AGG, '"lambda acc,v: acc if acc > v else v"', '"lambda acc,v: acc if acc >= v else v + 0"')], "equivalent": True},
        {"name": "seed-one", "edits": [(AGG, "agg_start = ast.Constant(0, kind=None)", "agg_start = ast.Constant(1, kind=None)")]},
        {"name": "no-visit-arg-sum", "edits": [(AGG, 'return _generate_count_call(self.visit(node.args[0]), "lambda acc,v: acc + v")', 'return _generate_count_call(node.args[0], "lambda acc,v: acc + v")')]},
        {"name": "count-any-arity", "edits": [(AGG, '(node.func.id == "len" or node.func.id == "Count") and (len(node.args) == 1)', '(node.func.id == "len" or node.func.id == "Count") and (len(node.args) >= 1)')]},
        {"name": "method-too", "edits": [(AGG, "        return self.generic_visit(node)", "        if type(node.func) is ast.Attribute and node.func.attr == 'Count' and len(node.args) == 0:\n            return _generate_count_call(self.visit(node.func.value))\n        return self.generic_visit(node)")]},
    ],
    "C17": [
        {"name": "no-generic-visit", "edits": [(UTL, "            node = self.generic_visit(call_node)\n            if node is None", "            node = call_node\n            if node is None")]},
        {"name": "seq-last", "edits": [(UTL, "[node.func.value] + node.args)", "node.args + [node.func.value])")]},
        {"name": "drop-name", "edits": [(UTL, '    "Min",\n', "")]},
        {"name": "prefix-match", "edits": [(UTL, "if node.func.attr not in function_names:", "if not any(node.func.attr.startswith(f) for f in function_names):")]},
        {"name": "case-insens", "edits": [(UTL, "if node.func.attr not in function_names:", "if node.func.attr.lower() not in [f.lower() for f in function_names]:")]},
    ],
}
