"""Print the prompt handed to a fresh sub-agent for seeding a property-breaking change (python3 tools/agent_prompt.py C19)."""
import json, sys
pid = sys.argv[1]
p = [json.loads(l) for l in open('/verif/properties.jsonl') if json.loads(l)['id'] == pid][0]
print(f"""You are helping to evaluate a verification effort for the open-source Python library iris-hep/func_adl
(a library that captures Python lambdas as ASTs to build LINQ-like hierarchical queries).

You have your own scratch git worktree of the library at /tmp/wt/{pid} (work ONLY there; never touch /repo or /verif,
and do not read anything under /verif). Python is /venv/bin/python; run things with the worktree first on the path, e.g.
  cd /tmp/wt/{pid} && PYTHONPATH=/tmp/wt/{pid} /venv/bin/python -m pytest -q -p no:cacheprovider
(the full suite takes ~5 s and must keep passing). There is no network.

The library is supposed to satisfy this semantic property:

  Title: {p['title']}
  Statement: {p['statement']}
  Quantified over: {p['quantifier']['text']}
  Code it is anchored in: {', '.join(p['anchors']['files'])}

TASK: produce ONE realistic change to the library's source (under func_adl/, not the tests) that BREAKS this property
while the code still imports/compiles and the ENTIRE existing test suite still passes unchanged. It should look like a
plausible refactoring slip, optimisation or "bug fix" a maintainer could make - not sabotage, and not something ordinary
use would expose at once: it should need something specific to manifest (an unusual input, a particular multi-step
sequence of operations, a specific nesting depth / naming coincidence, a particular interleaving or ordering, or two
cooperating sites that each look fine alone). Prefer a subtle semantic change over a crash.

Deliverables, written to the directory /tmp/wt/{pid}-out/ (create it):
  1. patch.diff  - `git -C /tmp/wt/{pid} diff` of your change (only files under func_adl/).
  2. demo.py     - a small self-contained program (run as: cd <tree> && PYTHONPATH=<tree> /venv/bin/python demo.py) that
                   exits 0 and prints PASS on the ORIGINAL code and exits non-zero (prints FAIL + why) WITH your change.
                   It must demonstrate a violation of the property as stated above (not merely a changed dump).
  3. notes.md    - 5-10 lines: what the change is, why it breaks the property, what specific circumstances are needed
                   for it to manifest, and the exact commands you ran (suite result with the change; demo with and without).

Before finishing, verify yourself: (a) with the change applied the full test suite passes; (b) demo.py fails with the
change; (c) reverse the patch with `git diff > p.diff; git apply -R p.diff` (NOT `git stash`: the stash is shared by all worktrees of the repository and other agents work next to you) -> demo.py passes; then re-apply (`git apply p.diff`) so the worktree contains the change.
Keep the patch small (ideally < 30 changed lines). Report the final contents of notes.md as your answer.""")
