"""Run every hand-written mutant of every property (and every seeded change) and write SENSITIVITY.md / SENSITIVITY.json.

  python3 tools/sensitivity_all.py [C01 C02 ...]
"""
import json
import os
import shutil
import subprocess
import sys

HERE = os.path.dirname(os.path.dirname(os.path.abspath(__file__)))
sys.path.insert(0, HERE)
from tools.mutants import MUTANTS  # noqa: E402
from tools.sensitivity import apply_mutant, make_copy, run_check, run_suite  # noqa: E402


def main():
    props = sys.argv[1:] or sorted(MUTANTS)
    path = os.path.join(HERE, "SENSITIVITY.json")
    data = json.load(open(path)) if os.path.exists(path) else {}
    for prop in props:
        rows = []
        for m in MUTANTS.get(prop, []):
            d, repo = make_copy()
            try:
                try:
                    apply_mutant(repo, m)
                except SystemExit as e:
                    print(prop, m["name"], "STALE PATTERN:", e, flush=True)
                    rows.append({"mutant": m["name"], "suite_passes": None, "check_exit": -1, "equivalent": m.get("equivalent"), "first": "pattern no longer matches the repository"})
                    continue
                ok, tail = run_suite(repo)
                rc, out = run_check(prop, repo)
                first = [ln.strip() for ln in out.splitlines() if ln.strip().startswith("[")][:1]
                rows.append({"mutant": m["name"], "suite_passes": ok, "check_exit": rc, "equivalent": m.get("equivalent"),
                             "first": first[0][:160] if first else None})
                print(prop, m["name"], "suite=" + ("pass" if ok else "fail"), "exit=%d" % rc, flush=True)
            finally:
                shutil.rmtree(d, ignore_errors=True)
        data[prop] = rows
        json.dump(data, open(path, "w"), indent=1)
    write_md(data)


def write_md(data):
    lines = ["# Sensitivity of the checks", "",
             "Each row is one realistic edit of iris-hep/func_adl applied to a scratch copy (`tools/sensitivity.py`): does the repository's own",
             "suite still pass, and does the property's **quick** check report a violation (exit 1)?  Mutants marked *equivalent* do not",
             "break the property as stated (reason given) and must stay quiet.  Regenerate with `python3 tools/sensitivity_all.py`.", ""]
    tot = caught = eq = survived_suite = 0
    for prop in sorted(data):
        lines += [f"## {prop}", "", "| mutant | repo suite | quick check | note |", "|---|---|---|---|"]
        for r in data[prop]:
            tot += 1
            c = r["check_exit"] == 1
            if r["equivalent"]:
                eq += 1
                note = "equivalent: " + (r["equivalent"] if isinstance(r["equivalent"], str) else "does not change behaviour in the property's domain")
            else:
                note = (r["first"] or "").replace("|", "\\|")[:140]
                caught += c
                if c and r["suite_passes"]:
                    survived_suite += 1
            lines.append(f"| {r['mutant']} | {'passes' if r['suite_passes'] else 'fails'} | {'VIOLATION' if c else 'quiet' if r['check_exit'] == 0 else 'exit %d' % r['check_exit']} | {note} |")
        lines.append("")
    lines.insert(5, f"Totals: {tot} mutants, {eq} equivalent, {caught} of the remaining {tot - eq} caught by the quick check; "
                    f"{survived_suite} of the caught ones are invisible to the repository's own suite.")
    lines.insert(6, "")
    seeded_dir = os.path.join(HERE, "seeded")
    lines += ["## Independently seeded changes (sub-agents given only the property text)", "",
              "| change | needs | suite with change | check | first report |", "|---|---|---|---|---|"]
    for name in sorted(os.listdir(seeded_dir)):
        mp = os.path.join(seeded_dir, name, "meta.json")
        if not os.path.exists(mp):
            continue
        m = json.load(open(mp))
        for k, v in m.get("detection", {}).items():
            lines.append(f"| seeded/{name} | {m.get('needs', '')[:150]} | {m.get('suite_with_change', '')} | {k}: {'VIOLATION' if v['exit'] == 1 else 'quiet'} | {(v.get('first_violation') or '')[:120].replace('|', ' ')} |")
    open(os.path.join(HERE, "SENSITIVITY.md"), "w").write("\n".join(lines) + "\n")


if __name__ == "__main__":
    if len(sys.argv) > 1 and sys.argv[1] == "--md":
        write_md(json.load(open(os.path.join(HERE, "SENSITIVITY.json"))))
    else:
        main()
