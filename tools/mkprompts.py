import json,glob,os,subprocess,sys
lo,hi=int(sys.argv[1]),int(sys.argv[2])
os.makedirs("/tmp/wt",exist_ok=True)
for i in range(lo,hi+1):
    pid=f"C{i:02d}"
    subprocess.run(["git","-C","/repo","worktree","add","-q","--detach",f"/tmp/wt/{pid}","HEAD"],check=True)
    base=subprocess.run(["python3","/verif/tools/agent_prompt.py",pid],capture_output=True,text=True).stdout
    needs=[]
    for d in sorted(glob.glob(f"/verif/seeded/{pid}*")):
        m=json.load(open(d+"/meta.json"))
        needs.append(m.get("needs",""))
    extra="\n\nEarlier reviewers already proposed changes that need the following circumstances to manifest. Yours must be of a DIFFERENT kind (a different mechanism in the code and a different triggering circumstance), so do not re-use any of these:\n"+"\n".join(f"  - {n}" for n in needs)+"\n\nLook for a part of the anchored code (or a clause of the property statement) that none of the above touches. Caches / memoisation keyed on the wrong thing are also over-represented already - prefer a genuinely semantic slip (a wrong condition, a swapped order, an off-by-one, a dropped or duplicated element, a too-narrow or too-broad type test, an edge value, a dropped copy, a wrong default) in a less-travelled branch. If, while exploring, you notice that the ORIGINAL code already violates the property for some input, say so at the end of notes.md under a heading 'Side observations' (with the input), but do not use it as your change.\n"
    open(f"/tmp/wt/{pid}.prompt","w").write(base+extra)
print("ok")
