"""Regenerate /verif/MANIFEST.json from the table below (python3 tools/mkmanifest.py)."""
import json
import os

HERE = os.path.dirname(os.path.dirname(os.path.abspath(__file__)))
ALL = [f"C{i:02d}" for i in range(1, 21)]

# id -> (technique, level text, level note, design ref)
CHECKS = {
    "C19": (
        "Hypothesis typed-grammar generation + bounded-exhaustive name x arity x position stratum; oracle = reference "
        "transform (structure) + extensional fold check + CPython value differential",
        "Randomised and bounded-exhaustive search over expressions containing the five shortcut names in call/method/"
        "nested/bare positions, decided by an independent reference transform, an extensional check of every produced "
        "fold against len/sum/max(0,..)/min(0,..) on generated integer sequences, and a before/after value differential.",
        "Trusts CPython's compile/eval as evaluator and ast.dump-level structural comparison; fold lambda text is not "
        "pinned, only its behaviour on generated sequences.",
        "DESIGN.md section 4, C19",
    ),
    "C17": (
        "Hypothesis typed-grammar generation (method/function form drawn per operator) + exhaustive name x position stratum; "
        "oracle = reference transform (dump equality), no method-form operator left, idempotence, CPython value differential",
        "Randomised and bounded-exhaustive search over queries mixing method-form and function-form operator calls with "
        "look-alike methods and attribute references; decided by an independent bottom-up reference transform compared by "
        "ast.dump, a residual scan, a second application, and evaluation of both forms on generated sequences.",
        "Trusts CPython's compile/eval and ast.dump; keyword arguments on operator calls are out of the statement's domain.",
        "DESIGN.md section 4, C17",
    ),
    "C15": (
        "Hypothesis grammar-based generation of queries with 0-8 MetaData wrappers; oracle = pure reference model on a deep "
        "copy (dump equality), multiset + outer-before-inner order of the extracted list, input-unchanged check",
        "Randomised search over wrapper placements (source chain, adjacent, nested, lambda bodies, arguments, keyword values) "
        "decided by two 10-line reference functions written from the statement, by multiset/order checks on the returned "
        "list and by comparing ast.dump(include_attributes=True) of the argument before and after remove_empty_metadata.",
        "Wrapper = function-form MetaData(src, dict-literal); extract_metadata is not required to preserve its argument.",
        "DESIGN.md section 4, C15",
    ),
    "C20": (
        "Hypothesis query generation + exhaustive single-edit enumeration per query; oracle = independent structural equality "
        "(hash equal <=> struct_eq), metamorphic equal-structure renderings, differential against a child process with another "
        "PYTHONHASHSEED",
        "For every generated query: hash equality is required for re-tokenised/re-positioned/unparsed/annotated renderings, "
        "for string vs ast vs callable supply on different dataset objects with and without QMetaData and for a second process; "
        "hash inequality is required for every single structural edit (enumerated exhaustively per query), each pair classified "
        "by an independent recursive structural equality.",
        "Trusts the 12-line struct_eq; md5 collisions are ignored; one child process per worker samples process independence.",
        "DESIGN.md section 4, C20",
    ),
    "C16": (
        "Hypothesis-generated operation histories (model-based / stateful) over a stream forest and a QMetaData-free twin "
        "forest; oracle = per-stream dict model checked as an invariant after every step + dump/hash differential against the twin",
        "Model-based testing over generated histories of QMetaData/derive/branch/execute operations: after every step the lookup "
        "of every pool key on every stream created so far must equal a dict model (parent's dict updated by own call), and "
        "every stream's dump/hash and every AST handed to an executor must equal those of the twin chain built without QMetaData.",
        "Values compared with ==; executors are stepped synchronously through value_async; histories up to 30 steps, 2 datasets.",
        "DESIGN.md section 4, C16",
    ),
    "C13": (
        "Hypothesis value generation (full-alphabet text, extreme numbers, nested containers) x every embedding entry point; "
        "oracle = round-trip ast.literal_eval(emitted literal) == value with recursively identical types",
        "Randomised search over values of the listed types sent through MetaData, the four result terminals' column/tree/file "
        "names, declared defaults of typed methods and captured closure/global variables; the emitted literal must evaluate "
        "back (ast.literal_eval) to an equal value of identical type (floats by repr), ValueError being accepted only at the "
        "in-lambda entry points for values that are not transportable scalars.",
        "Trusts ast.literal_eval as inverse; names are str; finite floats only.",
        "DESIGN.md section 4, C13",
    ),
    "C02": (
        "Hypothesis typed-grammar program generation (5 binder-naming schemes, nested-chain and guard shapes) x generated "
        "datasets; oracle = semantic differential (CPython evaluates original vs simplified AST under a LINQ prelude) + static "
        "free-variable check",
        "Randomised search over closed, type-correct query ASTs; the original (deep copy) and the output of "
        "simplify_chained_calls are both evaluated by CPython on generated datasets (incl. empty collections) and compared "
        "exactly and type-strictly whenever the original evaluates; free(result) must be a subset of free(original).",
        "Trusts CPython as evaluator and the 60-line LINQ prelude (self-validated at start); programs are limited to the fixed "
        "Evt/Jet/Trk schema; depth <= 4.",
        "DESIGN.md section 4, C02",
    ),
    "C14": (
        "Hypothesis generation of linear producer/consumer chains with nested tuple/list/dict packaging; oracle = shape predicate "
        "on the simplified AST (no construction, no projection left) known by construction + value differential as guard",
        "Randomised search over 2-6 stage chains whose intermediate stages package values and later stages project with "
        "constants; the simplified query must contain no Tuple/List/Dict node, no Subscript and no attribute with the reserved "
        "f_ prefix (final-package variant: no projection, constructions bounded by the final element type).",
        "The schema has no subscriptable members, so every remaining Subscript is a left-over projection; function form only.",
        "DESIGN.md section 4, C14",
    ),
    "C18": (
        "Hypothesis typed-grammar generation with planted odd selectors (variable/negative/slice/out-of-range index, absent key); "
        "oracle = totality (returns or dedicated index error iff planted), unparse+compile validity, value differential",
        "Randomised search over C02's grammar plus odd literal selectors in every position: the simplifier must return (no "
        "RecursionError, no internal exception) or raise FuncADLIndexError only when a constant index beyond a literal's end was "
        "planted; the result must unparse and compile, and evaluate to the original's value whenever that evaluates.",
        "Planted out-of-range indices are recognised syntactically in the input text.",
        "DESIGN.md section 4, C18",
    ),
    "C10": (
        "Hypothesis untyped-grammar generation x 3 supply forms x 3 operators + bounded-exhaustive stratum (depth<=1 quick, depth<=2 "
        "thorough); oracle = structural identity with a pristine parse, or ValueError justified by a syntactic designed-refusal classifier",
        "For every generated or enumerated lambda the emitted lambda must be ast.dump-equal to an independent parse of the source "
        "text; the only other admissible outcome is a ValueError in the presence of a designed-refusal trigger recognised by a "
        "classifier written from the statement (with exact must-pass predictions for comparison/boolean Where bodies, same-type "
        "constant conditionals, in-range tuple indices and defined dict keys); any other exception is an internal error.",
        "The classifier over-approximates where refusals may occur (it never requires a refusal); callables are rendered one per "
        "line (layouts are C03's job).",
        "DESIGN.md section 4, C10",
    ),
    "C07": (
        "Hypothesis generation of class models (signatures) x call shapes x placements + bounded-exhaustive stratum (all signatures "
        "<=3 params x all shapes x depth 0-2); oracle = python's own binder (inspect.Signature.bind + apply_defaults) builds the "
        "expected full-positional AST, compared by ast.dump",
        "For generated signatures and every call shape python accepts (plus missing-required), at nesting depth 0-3 through typed "
        "chains, collection operators, dictionary fields and re-used lambda parameter names, the emitted lambda must equal the "
        "AST obtained by binding the written arguments with inspect.Signature.bind and filling defaults as ast.Constant; bind "
        "raising TypeError <=> ValueError from the library; operator calls must keep their written arguments.",
        "Models have 3 classes + 1 registered function; defaults are str/int/float/bool; unknown keywords and surplus positionals "
        "are outside the statement.",
        "DESIGN.md section 4, C07",
    ),
    "C08": (
        "Hypothesis generation of class models (return annotations over generics/inheritance/custom iterables/dataclass/registered "
        "collection) and well-typed expressions; oracle = the generator's own type computation (substitution of type variables along "
        "the declared bases + the statement's rules) compared with stream.item_type by ==",
        "Randomised search over class models and expressions in the supported subset; after every stage the stream's item type must "
        "equal the type implied by the annotations as computed independently by the generator (method return types with class type "
        "variables substituted through generic and concrete subclasses and custom Iterable subclasses, Select/SelectMany/Where/"
        "First/[0]/Count/len rules, comparison/and-or -> bool, int/float promotion, dict and dataclass fields); a filter whose "
        "declared type is known and not bool must be refused with ValueError.",
        "Skeleton of 11 classes with generated method annotations; typing.List, tuple element types and abs() are not asserted.",
        "DESIGN.md section 4, C08",
    ),
    "C09": (
        "Hypothesis generation of callback placements (class/method/both/function processor/parameterized property, with optional "
        "call-site rewrites) x queries with uniquely marked call sites at depth 0-3; oracle = known-by-construction set of "
        "(callback, site) pairs, order, metadata position on the source chain and expected rewritten lambda (ast.dump equality)",
        "Every call site carries a unique marker; the generator knows which callbacks must fire for which site. After every stage: "
        "the callback log must contain every expected (callback, site) pair and nothing else, class-level before method-level; the "
        "MetaData each callback attached must sit on the args[0] chain between the new operator node and the parent's node and not "
        "inside the lambda; the emitted lambda must equal the written one with all rewrites applied and [param] subscripts removed; "
        "parameterized callbacks must receive the literal tuple by value.",
        "Duplicate firings are allowed (labelled). Methods take one required marker argument so default handling (C07) does not interfere.",
        "DESIGN.md section 4, C09",
    ),
    "C11": (
        "Hypothesis-generated operation histories (model-based / stateful) over a forest of streams; oracle = history invariant: "
        "snapshot of (ast.dump, item_type, query-metadata view) of every stream ever created must never change",
        "Model-based testing over histories of derive / MetaData / QMetaData / terminal / execute operations (string, callable and "
        "shared ast.Lambda supply; typed datasets with callbacks and untyped ones; simulated backend calling the library's "
        "metadata passes on the received AST; failed derivations included): after every step every stream created so far is "
        "re-inspected and compared with the snapshot taken when it was created.",
        "Histories up to 32 steps on up to 3 datasets; executors are stepped synchronously; value() at most twice per history.",
        "DESIGN.md section 4, C11",
    ),
    "C12": (
        "Hypothesis-generated histories (model-based / stateful) with harness-owned schedules: executors await custom gates that the "
        "generated permutation releases, coroutines stepped by hand; oracle = per-dataset call-log invariants + reference "
        "'remove empty MetaData' model + object identity of results/exceptions",
        "Model-based testing over histories of build and execute operations on 1-3 datasets: no executor call during building; every "
        "value()/value_async() adds exactly one call to exactly the right log (none when an override executor is given, which is "
        "then called once); the AST received equals a reference cleaner applied to the stream's query; the title is passed "
        "through; the result IS the executor's sentinel / the raised object IS its exception for every generated completion order "
        "of concurrently awaited executions; find_EventDataset returns the root dataset node and rejects 0 or 2 roots.",
        "Completion orders of awaited executions are fully controlled; OS-thread interleavings inside make_it_sync are not explored.",
        "DESIGN.md section 4, C12",
    ),
    "C03": (
        "Hypothesis generation of source-module layouts (73 layout families x names/operators/whitespace/context wrappers) executed "
        "as real modules via linecache; oracle = behavioural differential between the recorded lambda (compiled) and the callable "
        "object actually passed, on sample arguments; refusal allowed only outside the documented-supported class",
        "Every generated module performs operator calls with capture-free lambdas carrying unique markers on a recording dataset; "
        "for every call the lambda recorded in the query is compiled and must behave exactly like the callable object that was "
        "passed (any neighbour differs on every sample), or the call must raise; layouts constructed inside the documented-"
        "supported class must not raise.",
        "Layout families are enumerated by hand from the statement, README and test-suite; notebooks/REPL sources are not modelled.",
        "DESIGN.md section 4, C03",
    ),
    "C04": (
        "Hypothesis generation of source modules (closure/global/class/module-attribute captures, shadowing binders, value types) "
        "x rebinding histories; oracle = the real lambda object evaluated by CPython at call time vs the emitted lambda evaluated "
        "without the module namespace after every history step + dump stability",
        "Every generated module passes a lambda with captured names to Select on a recording dataset; the value the real lambda "
        "returns on a sample element when Select is called is the reference. The emitted lambda, evaluated by CPython with an "
        "empty namespace, must give that value at the call, after every rebinding/deleting step and in the AST handed to the "
        "executor, and ast.dump of the query must not change; shadowed names must not be replaced (same evaluation); a used "
        "capture holding a non-transportable value must raise ValueError.",
        "Sample element has one int and one sequence member; cases python itself cannot evaluate (3.12 inlined-comprehension "
        "scoping corner) are counted as reference errors.",
        "DESIGN.md section 4, C04",
    ),
    "C05": (
        "Hypothesis generation of source modules with 1-3 one-line helpers (bodies, parameter lists, call shapes, name collisions); "
        "oracle = CPython calling the real lambda (and helpers) vs CPython evaluating the emitted lambda with only the helpers "
        "left as calls by name bound + static free-variable check",
        "Every generated module passes a lambda that calls captured single-return helpers to Select; the value python computes by "
        "calling the real lambda on a sample element is the reference; the emitted lambda (helpers inlined) is evaluated with only "
        "those helper names bound that still occur in it and must give the same value; no other free name may appear.",
        "Helper bodies are closed over parameters and other helpers; sample element has int/float/sequence members.",
        "DESIGN.md section 4, C05",
    ),
    "C06": (
        "Hypothesis typed-grammar generation of lambdas with (nested) comprehensions / generator expressions x 3 lowering routes x "
        "datasets, plus bounded-exhaustive enumeration of dataclass/NamedTuple constructor bindings; oracle = CPython evaluating "
        "the original comprehension vs the lowered chain; python's own constructor as binder oracle; ValueError for malformed uses",
        "(a) the original lambda with comprehensions is run by CPython on generated events and the lowered lambda (resolve_syntatic_"
        "sugar / Select(string) / Select(callable)) is evaluated under the LINQ prelude: equal lists, no comprehension left; "
        "(b) every positional/keyword split and keyword order for 1-4 field dataclasses and NamedTuples is enumerated and the "
        "lowered dictionary, evaluated, must equal what python's constructor binds; (c) tuple targets, async for, unknown and "
        "surplus arguments must raise ValueError.",
        "Single for clause only; constructor calls that omit or double-bind fields are outside the statement.",
        "DESIGN.md section 4, C06",
    ),
    "C01": (
        "Hypothesis generation of whole programs (stream forests, 3 lambda supply forms, captures/helpers/sugar/typed defaults) x "
        "datasets; oracle = differential: the same module text executed with a python sequence class vs CPython evaluation of the "
        "AST handed to the executor, as received and after each shipped backend pass alone and cumulatively",
        "Each generated module is executed twice: with a recording func_adl dataset (value_async -> AST received by the executor) "
        "and, unchanged, with a python sequence of the same events (python literally runs the chain: strings eval'd, ASTs "
        "compiled). The received AST, and the AST after extract_metadata / method->function form / aggregate shortcuts / "
        "simplification (each alone and in backend order), is evaluated by CPython under the deferred LINQ prelude and must "
        "equal python's result exactly and type-strictly for every output stream and terminal.",
        "Typed event model with real method bodies (defaults have meaning); programs limited to that model; python raising => "
        "nothing required; build-time ValueError => counted as refused.",
        "DESIGN.md section 4, C01",
    ),
}

NOT_YET = "check not built yet in this round (work in progress; see DESIGN.md section 4 for the planned generator/oracle)"


def main():
    checks = []
    for pid in ALL:
        if pid not in CHECKS:
            continue
        tech, text, note, ref = CHECKS[pid]
        checks.append(
            {
                "property_id": pid,
                "quick_cmd": f"/venv/bin/python -m vf.run {pid} --tier quick",
                "thorough_cmd": f"/venv/bin/python -m vf.run {pid} --tier thorough",
                "evidence_file": f"/verif/evidence/{pid}.json",
                "replay_cmd_template": f"/venv/bin/python -m vf.run {pid} --replay {{path}}",
                "engine": "hypothesis-sharded",
                "level_claimed": {"category": "exploration", "text": text, "design_ref": ref},
                "level_note": note,
                "technique": tech,
            }
        )
    m = {
        "version": 1,
        "setup_cmd": "sh setup.sh",
        "hooks": {
            "guard": "FUNC_ADL_VERIF",
            "enable": "no hooks are needed: every observation point is a public return value, attribute or user callback; "
            "checks import func_adl from /repo's working tree (PYTHONPATH=/repo)",
            "baseline_off_cmd": "cd /repo && /venv/bin/python -m pytest -ra -q -p no:cacheprovider --timeout=900 --continue-on-collection-errors",
            "source_commits": [],
            "add_only": True,
        },
        "engines": [
            {
                "name": "hypothesis-sharded",
                "path": "vf/common/harness.py",
                "serves_properties": sorted(CHECKS),
                "kind_free_text": "Hypothesis 6.168 property-based search, sharded over processes with seeds VERIF_SEED*1000+shard, "
                "plus bounded-exhaustive strata and a replay tier of committed witnesses; explicit oracles per property",
            }
        ],
        "checks": checks,
        "not_applicable": [{"property_id": p, "reason": NOT_YET} for p in ALL if p not in CHECKS],
        "notes": "exit 0 = held on everything explored; exit 1 + VIOLATION line; exit 2 = harness error (oracle self-test, "
        "generator health), never reported as a violation. known_findings.json lists genuine defects (fixed/open).",
    }
    with open(os.path.join(HERE, "MANIFEST.json"), "w") as f:
        json.dump(m, f, indent=1)
    print("checks:", [c["property_id"] for c in checks])


if __name__ == "__main__":
    main()
