"""Record a repaired defect: witness replay + known_findings.json row + DESIGN.md §6 row.

usage: addfinding.py <Dnn> <property> <commit> <out/replays/...json> <slug> "<what>" [also,...]
"""
import json
import re
import sys

did, prop, commit, src, slug, what = sys.argv[1:7]
also = sys.argv[7].split(",") if len(sys.argv) > 7 else []
case = json.load(open(src))
wit = f"replays/{prop}/{did.lower()}-{slug}.json"
json.dump({"property": prop, "case": case["case"]}, open(wit, "w"), indent=1)
kf = json.load(open("known_findings.json"))
lst = kf["findings"] if isinstance(kf, dict) else kf
lst.append({"id": did, "status": "fixed", "property": prop, "also": also, "commit": commit, "what": what,
            "line": f"fixed: property={prop} {commit} {what}", "witness": wit})
json.dump(kf, open("known_findings.json", "w"), indent=1)
d = open("DESIGN.md").read()
rows = [m for m in re.finditer(r"^\| D\d+ .*$", d, re.M)]
last = rows[-1]
row = f"| {did} | {prop}{(' (' + ', '.join(also) + ')') if also else ''} | {what} | fixed: `{commit}` | `{wit}` |"
d = d[: last.end()] + "\n" + row + d[last.end():]
open("DESIGN.md", "w").write(d)
print(wit)
