"""Sensitivity protocol: apply one mutant to a scratch copy of /repo, run the repo's own suite and the
property's quick check against the copy (VF_REPO), report, and remove the copy.

  python3 tools/sensitivity.py C19            # all hand-written mutants of C19
  python3 tools/sensitivity.py C19 m2         # one of them
  python3 tools/sensitivity.py --patch seeded/C19-x/patch.diff C19   # a seeded change (git apply)
"""
import json
import os
import shutil
import subprocess
import sys
import tempfile

HERE = os.path.dirname(os.path.dirname(os.path.abspath(__file__)))
sys.path.insert(0, HERE)
from tools.mutants import MUTANTS  # noqa: E402


def make_copy():
    d = tempfile.mkdtemp(prefix="vfmut_")
    subprocess.run(["git", "-C", "/repo", "worktree", "prune"], check=False)
    shutil.copytree("/repo", os.path.join(d, "repo"), ignore=shutil.ignore_patterns(".git", "__pycache__", ".pytest_cache"))
    return d, os.path.join(d, "repo")


def run_suite(repo):
    p = subprocess.run(
        ["/venv/bin/python", "-m", "pytest", "-q", "-x", "-p", "no:cacheprovider", "--timeout=900"],
        cwd=repo, capture_output=True, text=True, env={**os.environ, "PYTHONPATH": repo, "PYTHONDONTWRITEBYTECODE": "1"},
    )
    tail = (p.stdout.strip().splitlines() or ["?"])[-1]
    return p.returncode == 0, tail


def run_check(prop, repo, tier="quick", seed="1"):
    p = subprocess.run(
        ["/venv/bin/python", "-m", "vf.run", prop, "--tier", tier],
        cwd=HERE, capture_output=True, text=True, env={**os.environ, "VF_REPO": repo, "VERIF_SEED": seed, "VF_NO_EVIDENCE": "1"},
    )
    return p.returncode, p.stdout + p.stderr[-2000:]


def apply_mutant(repo, mut):
    for (rel, old, new) in mut["edits"]:
        path = os.path.join(repo, rel)
        s = open(path).read()
        if s.count(old) != 1:
            raise SystemExit(f"mutant {mut['name']}: pattern occurs {s.count(old)} times in {rel}")
        open(path, "w").write(s.replace(old, new))


def main():
    args = sys.argv[1:]
    patch = None
    if args and args[0] == "--patch":
        patch = os.path.abspath(args[1])
        args = args[2:]
    props = [args[0]]
    which = args[1:] if len(args) > 1 else None
    if patch:
        props = args
        muts = [{"name": os.path.basename(os.path.dirname(patch)), "patch": patch}]
    else:
        muts = [m for m in MUTANTS.get(props[0], []) if which is None or m["name"] in which]
    rows = []
    for m in muts:
        d, repo = make_copy()
        try:
            if "patch" in m:
                subprocess.run(["git", "init", "-q"], cwd=repo)
                r = subprocess.run(["git", "apply", m["patch"]], cwd=repo, capture_output=True, text=True)
                if r.returncode:
                    print("patch failed:", r.stderr)
                    continue
            else:
                apply_mutant(repo, m)
            ok, tail = run_suite(repo)
            for prop in props:
                rc, out = run_check(prop, repo, tier=os.environ.get("VF_TIER", "quick"))
                first = [ln for ln in out.splitlines() if ln.strip().startswith("[")][:1]
                rows.append({"prop": prop, "mutant": m["name"], "suite_passes": ok, "suite": tail, "check_exit": rc, "first": first})
                print(f"{prop} {m['name']}: suite={'pass' if ok else 'FAIL'} ({tail}) check_exit={rc} {first[0][:200] if first else ''}")
                if rc not in (0, 1):
                    print(out[-3000:])
        finally:
            shutil.rmtree(d, ignore_errors=True)
    return rows


if __name__ == "__main__":
    main()
