"""Ordinary func_adl usage (README / documentation style queries), one line per query: the dump or the exception.

A guard against regressions introduced by the `fix:` commits themselves (see DESIGN section 6, D43): run it on the snapshot
the task started from and on the current tree and diff the two outputs - only lines that belong to a repaired defect may differ.

    d=$(mktemp -d); git -C /repo worktree add -q --detach $d/r 1734026
    PYTHONPATH=$d/r /venv/bin/python tools/usage_smoke.py > $d/old.txt 2>/dev/null
    PYTHONPATH=/repo /venv/bin/python tools/usage_smoke.py > $d/new.txt 2>/dev/null; diff $d/old.txt $d/new.txt
    git -C /repo worktree remove --force $d/r; rm -rf $d
"""
import ast, math, sys
from dataclasses import dataclass
from typing import Iterable, NamedTuple
import numpy as np
from func_adl import EventDataset, ObjectStream, func_adl_callable, func_adl_callback

class DS(EventDataset):
    async def execute_result_async(self, a, title=None): return a

class Jet:
    def pt(self) -> float: ...
    def eta(self) -> float: ...
    def phi(self) -> float: ...
    def tracks(self, min_pt: float = 500.0) -> Iterable["Track"]: ...
class Track:
    def pt(self) -> float: ...
class Event:
    def Jets(self, name: str = "AntiKt4") -> Iterable[Jet]: ...
    def met(self) -> float: ...
    def EventInfo(self, name: str) -> "Info": ...
class Info:
    def runNumber(self) -> int: ...

@dataclass
class Pair:
    a: float
    b: float
class NT(NamedTuple):
    x: float
    y: float

cut = 30.0
scale = 1000
name = "AntiKt4EMTopoJets"
cuts = {"pt": 25}
def good(j): return j.pt() > cut and abs(j.eta()) < 2.5
def gev(x): return x / 1000.0
@func_adl_callable()
def DeltaR(eta1: float, phi1: float, eta2: float, phi2: float) -> float: ...

Q = []
def q(f):
    Q.append(f)
    return f

@q
def q1():
    return DS().SelectMany(lambda e: e.Jets("AntiKt4EMTopoJets")).Where(lambda j: j.pt() / 1000 > 30).Select(lambda j: j.eta()).AsAwkwardArray("eta")
@q
def q2():
    return DS().Select(lambda e: {"pt": [j.pt() for j in e.Jets()], "eta": [j.eta() for j in e.Jets() if j.pt() > 10]})
@q
def q3():
    return DS().Select(lambda e: e.Jets(name)).Select(lambda jets: jets.Where(lambda j: j.pt() > cut).Count())
@q
def q4():
    return DS().Select(lambda e: math.cos(e.met()) + np.sqrt(e.met()) + abs(e.met()))
@q
def q5():
    return DS().SelectMany(lambda e: e.Jets()).Where(lambda j: good(j)).Select(lambda j: gev(j.pt()))
@q
def q6():
    return DS().Select(lambda e: Pair(e.met(), b=e.met() / scale)).Select(lambda p: p.a + p.b)
@q
def q7():
    return DS().Select(lambda e: NT(x=e.met(), y=1.0)).Select(lambda p: p.x)
@q
def q8():
    return DS(Event).SelectMany(lambda e: e.Jets()).Where(lambda j: j.pt() > cut).Select(lambda j: (j.pt(), j.eta(), j.tracks().Count()))
@q
def q9():
    return DS(Event).Select(lambda e: e.Jets("b").Select(lambda j: j.tracks(min_pt=1000.0).Select(lambda t: t.pt())))
@q
def q10():
    return DS(Event).Select(lambda e: e.EventInfo("EventInfo").runNumber()).AsPandasDF("run")
@q
def q11():
    return DS().Select("lambda e: e.jets.Select(lambda j: j.pt)").AsROOTTTree("f.root", "t", ["pt"])
@q
def q12():
    return DS().Where(lambda e: e.Jets().Where(lambda j: j.pt() > cuts["pt"]).Count() >= 2).Select(lambda e: e.met())
@q
def q13():
    return DS().Select(lambda e: (e.Jets(), e.met())).Select(lambda t: t[0].Select(lambda j: j.pt() * t[1]))
@q
def q14():
    return DS().Select(lambda e: DeltaR(e.j1.eta(), e.j1.phi(), e.j2.eta(), e.j2.phi()))
@q
def q15():
    return DS().Select(lambda e: e.Jets().First().pt() if e.Jets().Count() > 0 else -1.0)
@q
def q16():
    return DS().Select(lambda e: sum([j.pt() for j in e.Jets()]) + len(e.Jets()))
@q
def q17():
    return (DS()
        .SelectMany(lambda e: e.Jets())
        .Where(lambda j: j.pt() > 20
               and abs(j.eta()) < 2.5)
        .Select(lambda j: {
            "pt": j.pt() / 1000.0,
            "eta": j.eta(),
        })
        .AsParquetFiles("out.parquet", ["pt", "eta"]))
@q
def q18():
    return DS().MetaData({"metadata_type": "add_method", "name": "x"}).QMetaData({"k": 1}).Select(lambda e: e.x)
@q
def q19():
    local_cut = np.float64(12.5)
    return DS().Select(lambda e: e.met() > local_cut)
@q
def q20():
    return DS().Select(lambda e: e.met() if e.met() > 0 else 0).Where(lambda m: not (m > 100))

for f in Q:
    try:
        s = f()
        print(f.__name__, "OK", ast.dump(s.query_ast), "|", getattr(s, "item_type", None))
    except Exception as e:
        print(f.__name__, "EXC", type(e).__name__, str(e)[:150])
