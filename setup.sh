#!/bin/sh
# Offline setup: hypothesis into /venv (no-op when present), atheris (optional, thorough tier only) into /verif/.deps
set -e
cd "$(dirname "$0")"
export PIP_NO_INDEX=1 PIP_DISABLE_PIP_VERSION_CHECK=1
/venv/bin/python -c "import hypothesis" 2>/dev/null || /venv/bin/pip install -q --no-index --find-links /opt/veriftools/wheels hypothesis
if [ ! -d .deps/atheris ]; then
  /venv/bin/pip install -q --no-index --find-links /opt/veriftools/wheels --target .deps atheris 2>/dev/null || echo "atheris unavailable (optional)"
fi
/venv/bin/python -c "import hypothesis, sys; print('hypothesis', hypothesis.__version__, 'python', sys.version.split()[0])"
