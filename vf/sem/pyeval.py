"""The semantic oracle: CPython evaluates a query AST under ordinary LINQ/list semantics.

The AST is deep-copied, dict literals are wrapped as Rec(...) (func_adl reads dict literals as
records with attribute access), missing ctx/locations are filled, and then CPython compiles and
evaluates it.  Lambda scoping, shadowing, keyword binding and comprehension scoping are CPython's.
"""
from __future__ import annotations

import ast
import copy
import dataclasses
from typing import Any, Dict


class Seq(list):
    """A list with the LINQ operators in method form (what a user chain runs on directly)."""

    def Select(self, f):
        return Seq([f(x) for x in self])

    def Where(self, f):
        return Seq([x for x in self if f(x)])

    def SelectMany(self, f):
        return Seq([y for x in self for y in f(x)])

    def First(self):
        return list.__getitem__(self, 0)

    def Count(self):
        return len(self)

    def Aggregate(self, init, f):
        acc = init
        for x in self:
            acc = f(acc, x)
        return acc

    def Sum(self):
        return sum(self)

    def Max(self):
        return max(self)

    def Min(self):
        return min(self)


class Rec(dict):
    """dict literal with attribute access for its keys (a key named like a method of dict - values, items, get - is the FIELD,
    as in func_adl, where `p.values` on a packaged dictionary means `p['values']`)."""

    def __getattribute__(self, k):
        if not k.startswith("__") and dict.__contains__(self, k):
            return dict.__getitem__(self, k)
        return dict.__getattribute__(self, k)

    def __getattr__(self, k):
        try:
            return self[k]
        except KeyError:
            raise AttributeError(k)


class LazySeq:
    """Deferred (LINQ-style) sequence: elements are computed on demand and cached.  First() only forces the first
    element, so the library's First(seq).m() -> First(Select(seq, s: s.m())) rewrite means the same thing."""

    def __init__(self, it):
        self._it = iter(it)
        self._cache = []

    def __iter__(self):
        i = 0
        while True:
            if i < len(self._cache):
                yield self._cache[i]
                i += 1
                continue
            try:
                v = next(self._it)
            except StopIteration:
                return
            self._cache.append(v)

    def _force(self):
        for _ in self:
            pass
        return self._cache

    def __len__(self):
        return len(self._force())

    def __getitem__(self, i):
        if isinstance(i, int) and i >= 0:
            for k, v in enumerate(self):
                if k == i:
                    return v
            raise IndexError(i)
        return self._force()[i]

    def __eq__(self, o):
        return list(self) == list(o)

    def __hash__(self):
        return id(self)

    def Select(self, f):
        return LazySeq(f(x) for x in self)

    def Where(self, f):
        return LazySeq(x for x in self if f(x))

    def SelectMany(self, f):
        return LazySeq(y for x in self for y in f(x))

    def First(self):
        for x in self:
            return x
        raise IndexError("First() of an empty sequence")

    def Count(self):
        return len(self)

    def Aggregate(self, init, f):
        acc = init
        for x in self:
            acc = f(acc, x)
        return acc

    def Sum(self):
        return sum(self)

    def Max(self):
        return max(self)

    def Min(self):
        return min(self)


class DSeq(list):
    """data sequence for AST evaluation: a list whose operators are deferred"""

    def Select(self, f):
        return LazySeq(self).Select(f)

    def Where(self, f):
        return LazySeq(self).Where(f)

    def SelectMany(self, f):
        return LazySeq(self).SelectMany(f)

    def First(self):
        return LazySeq(self).First()

    def Count(self):
        return len(self)

    def Aggregate(self, init, f):
        return LazySeq(self).Aggregate(init, f)

    def Sum(self):
        return sum(self)

    def Max(self):
        return max(self)

    def Min(self):
        return min(self)


def _seq(s):
    if isinstance(s, (LazySeq, DSeq)):
        return s
    return LazySeq(s)


def Select(s, f):
    return _seq(s).Select(f)


def Where(s, f):
    return _seq(s).Where(f)


def SelectMany(s, f):
    return _seq(s).SelectMany(f)


def First(s):
    return _seq(s).First()


def Count(s):
    return len(_seq(s))


def Aggregate(s, init, f):
    return _seq(s).Aggregate(init, f)


def MetaData(s, d):
    return s


def _result(tag):
    def r(s, *a):
        return (tag, materialise(s)) + tuple(materialise(x) for x in a)

    return r


PRELUDE: Dict[str, Any] = {
    "Select": Select,
    "Where": Where,
    "SelectMany": SelectMany,
    "First": First,
    "Count": Count,
    "Aggregate": Aggregate,
    "MetaData": MetaData,
    "len": len,
    "abs": abs,
    "Rec": Rec,
    "_vf_Rec": Rec,
    "ResultTTree": _result("ResultTTree"),
    "ResultParquet": _result("ResultParquet"),
    "ResultPandasDF": _result("ResultPandasDF"),
    "ResultAwkwardArray": _result("ResultAwkwardArray"),
}
# NB: Sum/Max/Min as *functions* are not in the prelude by default: their func_adl meaning is defined by
# aggregate_node_transformer (C19) -- properties that need them add python's own.


class _Prep(ast.NodeTransformer):
    def visit_Dict(self, node: ast.Dict):
        self.generic_visit(node)
        return ast.Call(func=ast.Name(id="_vf_Rec", ctx=ast.Load()), args=[node], keywords=[])


def _fix_ctx(tree: ast.AST):
    for n in ast.walk(tree):
        if isinstance(n, (ast.Name, ast.Attribute, ast.Subscript, ast.Tuple, ast.List, ast.Starred)):
            if getattr(n, "ctx", None) is None:
                n.ctx = ast.Load()
        if isinstance(n, ast.Call) and getattr(n, "keywords", None) is None:
            n.keywords = []
        if isinstance(n, ast.arg):
            if not hasattr(n, "annotation"):
                n.annotation = None
        if isinstance(n, ast.Constant) and not hasattr(n, "kind"):
            n.kind = None


class _Err:
    """Absorbing error value of the *total* semantics used by C18: a failing literal projection yields ERR instead of
    raising, every operation on ERR yields ERR (truth value False, empty when iterated), so that a rewrite which turns
    an erroring projection into a different value (or vice versa) becomes visible in the result."""

    def _s(self, *a, **k):
        return self

    __add__ = __radd__ = __sub__ = __rsub__ = __mul__ = __rmul__ = __truediv__ = __rtruediv__ = _s
    __mod__ = __rmod__ = __neg__ = __pos__ = __abs__ = __call__ = __getitem__ = _s
    __lt__ = __gt__ = __le__ = __ge__ = __eq__ = __ne__ = _s

    def __getattr__(self, n):
        if n.startswith("__"):
            raise AttributeError(n)
        return self

    def __hash__(self):
        return 0

    def __bool__(self):
        return False

    def __iter__(self):
        return iter(())

    def __len__(self):
        return 0

    def __repr__(self):
        return "ERR"


ERR = _Err()


def _sub(v, s):
    try:
        return v[s]
    except (IndexError, KeyError, TypeError):
        return ERR


class RecSafe(Rec):
    def __getattr__(self, k):
        try:
            return self[k]
        except KeyError:
            return ERR


class _Total(ast.NodeTransformer):
    def visit_Subscript(self, node: ast.Subscript):
        self.generic_visit(node)
        sl = node.slice
        if isinstance(sl, ast.Slice):
            none = ast.Constant(value=None)
            sl = ast.Call(func=ast.Name(id="_vf_slice", ctx=ast.Load()), args=[sl.lower or none, sl.upper or none, sl.step or none], keywords=[])
        return ast.Call(func=ast.Name(id="_vf_sub", ctx=ast.Load()), args=[node.value, sl], keywords=[])


def prepare(tree: ast.AST, total: bool = False) -> ast.Expression:
    t = copy.deepcopy(tree)
    if isinstance(t, ast.Module):
        t = t.body[0].value  # type: ignore
    if isinstance(t, ast.Expression):
        t = t.body
    if total:
        _fix_ctx(t)
        t = _Total().visit(t)
    t = _Prep().visit(t)
    _fix_ctx(t)
    e = ast.Expression(body=t)
    ast.fix_missing_locations(e)
    return e


def evaluate(tree: ast.AST, env: Dict[str, Any], total: bool = False) -> Any:
    """Evaluate a (possibly sloppy, machine-built) expression AST in PRELUDE + env."""
    e = prepare(tree, total)
    code = compile(e, "<vf-eval>", "eval")
    g = dict(PRELUDE)
    if total:
        g.update(_vf_sub=_sub, _vf_slice=slice, _vf_Rec=RecSafe)
    g.update(env)
    g["__builtins__"] = {}
    return eval(code, g)


def materialise(v: Any) -> Any:
    """Normalise a result for exact, type-strict comparison."""
    if v is ERR:
        return ("ERR",)
    if isinstance(v, bool):
        return ("b", v)
    if isinstance(v, int):
        return ("i", v)
    if isinstance(v, float):
        return ("f", repr(v))
    if isinstance(v, complex):
        return ("c", repr(v))
    if isinstance(v, str):
        return ("s", v)
    if isinstance(v, bytes):
        return ("y", v.hex())
    if v is None:
        return ("n",)
    if isinstance(v, dict):
        return ("d", tuple((k, materialise(x)) for k, x in dict.items(v)))
    if dataclasses.is_dataclass(v) and not isinstance(v, type):
        if hasattr(v, "_vf_id"):
            return ("o", type(v).__name__, v._vf_id)
        return ("d", tuple((f.name, materialise(getattr(v, f.name))) for f in dataclasses.fields(v) if type(getattr(v, f.name)).__name__ != "_Omitted"))
    if isinstance(v, tuple) and hasattr(v, "_fields"):
        return ("d", tuple((k, materialise(x)) for k, x in zip(v._fields, v) if type(x).__name__ != "_Omitted"))
    if isinstance(v, tuple):
        return ("t", tuple(materialise(x) for x in v))
    if isinstance(v, list):
        return ("l", tuple(materialise(x) for x in v))
    if hasattr(v, "_vf_id"):
        return ("o", type(v).__name__, v._vf_id)
    if hasattr(v, "__iter__") and not callable(v):
        return ("l", tuple(materialise(x) for x in v))
    if callable(v):
        return ("callable",)
    return ("?", repr(v))


def mat_nonempty(m) -> bool:
    """Does a materialised value contain at least one scalar leaf?"""
    if m[0] in ("b", "i", "f", "s", "y", "o", "c", "ERR"):
        return True
    if m[0] == "d":
        return any(mat_nonempty(x) for _, x in m[1])
    if m[0] in ("t", "l"):
        return any(mat_nonempty(x) for x in m[1])
    return False


# ------------------------------------------------------------------------------------------------
# static scope analysis


def free_names(tree: ast.AST) -> set:
    """Free variable names of an expression AST (lambda parameters and comprehension targets bind)."""
    out = set()

    def go(n, bound):
        if isinstance(n, ast.Name):
            if n.id not in bound:
                out.add(n.id)
            return
        if isinstance(n, ast.Lambda):
            a = n.args
            for d in list(a.defaults) + [x for x in a.kw_defaults if x is not None]:
                go(d, bound)
            names = [x.arg for x in list(a.posonlyargs) + list(a.args) + list(a.kwonlyargs)]
            if a.vararg:
                names.append(a.vararg.arg)
            if a.kwarg:
                names.append(a.kwarg.arg)
            go(n.body, bound | set(names))
            return
        if isinstance(n, (ast.ListComp, ast.GeneratorExp, ast.SetComp, ast.DictComp)):
            b = set(bound)
            for g in n.generators:
                go(g.iter, b)
                for t in ast.walk(g.target):
                    if isinstance(t, ast.Name):
                        b.add(t.id)
                for i in g.ifs:
                    go(i, b)
            if isinstance(n, ast.DictComp):
                go(n.key, b)
                go(n.value, b)
            else:
                go(n.elt, b)
            return
        for c in ast.iter_child_nodes(n):
            go(c, bound)

    go(tree, frozenset())
    return out
