"""Typed event model for C01: full annotations (what func_adl's type follower reads) AND real bodies (what python runs).

Every member is a method (as in real func_adl models); several have defaulted parameters with real meaning, so that a
wrongly filled default or a mis-ordered keyword changes the computed value.
"""
from typing import Iterable

from vf.sem.pyeval import DSeq, Seq


class Trk:
    def __init__(self, d, S=Seq):
        self._vf_id = d["id"]
        self._d = d

    def pt(self) -> float:
        return self._d["pt"]

    def n(self) -> int:
        return self._d["n"]

    def good(self) -> bool:
        return self._d["good"]

    # same name as Jet.scaled / Evt.scaled, different parameter order and defaults: filling defaults from the wrong class shows
    def scaled(self, off: int = 2, f: float = 0.5) -> float:
        return self._d["pt"] * f + off


class Jet:
    def __init__(self, d, S=Seq):
        self._vf_id = d["id"]
        self._d = d
        self._S = S
        self._trks = [Trk(t, S) for t in d["trks"]]

    def pt(self) -> float:
        return self._d["pt"]

    def eta(self) -> float:
        return self._d["eta"]

    def idx(self) -> int:
        return self._d["idx"]

    def ok(self) -> bool:
        return self._d["ok"]

    def trks(self, minpt: float = 0.0) -> Iterable[Trk]:
        return self._S(t for t in self._trks if t.pt() >= minpt)

    def scaled(self, f: float = 2.0, off: int = 0) -> float:
        return self._d["pt"] * f + off


class Evt:
    def __init__(self, d, S=Seq):
        self._vf_id = d["id"]
        self._d = d
        self._S = S
        self._jets = [Jet(j, S) for j in d["jets"]]

    def met(self) -> float:
        return self._d["met"]

    def run(self) -> int:
        return self._d["run"]

    def scaled(self, f: float = 3.0, off: int = 1) -> float:
        return self._d["met"] * f + off

    def nums(self) -> Iterable[int]:
        return self._S(self._d["nums"])

    def groups(self) -> Iterable[Iterable[int]]:
        return self._S(self._S(g) for g in self._d.get("groups", []))

    def jets(self, name: str = "a", cut: float = 0.0) -> Iterable[Jet]:
        js = self._jets if name == "a" else list(reversed(self._jets))
        return self._S(j for j in js if j.pt() >= cut)


def build(data, lazy):
    S = DSeq if lazy else Seq
    return [Evt(e, S) for e in data]
