"""Runtime objects for the fixed event schema (what CPython runs the queries on).

Both access styles exist on every object: plain attributes (.pt) for untyped ASTs and methods for typed models.
The *typed* model classes (with annotations func_adl reads) live in vf/sem/typed_model.py.
"""
from __future__ import annotations

from vf.sem.pyeval import Seq


class Trk:
    def __init__(self, d):
        self._vf_id = d["id"]
        self.pt = d["pt"]
        self.n = d["n"]
        self._good = d["good"]

    def good(self):
        return self._good


class Jet:
    def __init__(self, d):
        self._vf_id = d["id"]
        self.pt = d["pt"]
        self.eta = d["eta"]
        self.idx = d["idx"]
        self._ok = d["ok"]
        self._trks = Seq(Trk(t) for t in d["trks"])

    def ok(self):
        return self._ok

    def trks(self):
        return self._trks

    def scaled(self, f=2.0, off=0):
        return self.pt * f + off


class Evt:
    def __init__(self, d):
        self._vf_id = d["id"]
        self.met = d["met"]
        self.run = d["run"]
        self._nums = Seq(d["nums"])
        self._jets = Seq(Jet(j) for j in d["jets"])

    def jets(self):
        return self._jets

    def nums(self):
        return self._nums


def build(data) -> Seq:
    return Seq(Evt(e) for e in data)
