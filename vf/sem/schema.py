"""Runtime objects for the fixed event schema (what CPython runs the queries on).

Both access styles exist on every object: plain attributes (.pt) for untyped ASTs and methods for typed models.
The *typed* model classes (with annotations func_adl reads) live in vf/sem/typed_model.py.
"""
from __future__ import annotations

from vf.sem.pyeval import DSeq, Seq


class Trk:
    def __init__(self, d, S=Seq):
        self._vf_id = d["id"]
        self.pt = d["pt"]
        self.n = d["n"]
        self._good = d["good"]

    def good(self):
        return self._good


class Jet:
    def __init__(self, d, S=Seq):
        self._vf_id = d["id"]
        self.pt = d["pt"]
        self.eta = d["eta"]
        self.idx = d["idx"]
        self._ok = d["ok"]
        self._trks = S(Trk(t) for t in d["trks"])

    def ok(self):
        return self._ok

    def trks(self):
        return self._trks

    def scaled(self, f=2.0, off=0):
        return self.pt * f + off


class Evt:
    def __init__(self, d, S=Seq):
        self._vf_id = d["id"]
        self.met = d["met"]
        self.run = d["run"]
        self._nums = S(d["nums"])
        self._groups = S(S(g) for g in d.get("groups", []))
        self._jets = S(Jet(j, S) for j in d["jets"])

    def jets(self):
        return self._jets

    def nums(self):
        return self._nums

    def groups(self):
        return self._groups


def build(data, lazy=True):
    """lazy=True: deferred (LINQ) operators for AST evaluation; lazy=False: plain eager lists (python-direct runs)"""
    S = DSeq if lazy else Seq
    return S(Evt(e, S) for e in data)
