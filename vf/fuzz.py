"""Coverage-guided supplement: atheris (libFuzzer) drives the SAME Hypothesis strategy and the SAME in-target oracle.

  python -m vf.fuzz <ID> <tier> <runs> <seed> <outdir>

libFuzzer supplies the byte string, `prop.hypothesis.fuzz_one_input` decodes it through the property's strategy into a
structured case, the oracle runs inside the target.  State is reset at the top of every iteration (harness.reset_state).
A violation is written to <outdir>/violation.json before the exception reaches libFuzzer; counters go to <outdir>/stats.json
(every 200 executions, because atexit handlers do not run under libFuzzer).
"""
import json
import os
import sys

os.environ.setdefault("PYTHONHASHSEED", "0")
sys.dont_write_bytecode = True


def main():
    prop_id, tier, runs, seed, outdir = sys.argv[1], sys.argv[2], int(sys.argv[3]), int(sys.argv[4]), sys.argv[5]
    from vf.common import harness

    harness.setup_path()
    harness.quiet_logs()
    import atheris

    with atheris.instrument_imports(include=["func_adl"]):
        import func_adl  # noqa: F401
        import func_adl.ast.function_simplifier  # noqa: F401
        import func_adl.type_based_replacement  # noqa: F401
        import func_adl.util_ast  # noqa: F401
    import importlib

    from hypothesis import HealthCheck, given, settings

    mod = importlib.import_module(f"vf.props.{prop_id.lower()}")
    open_ids = [e["id"] for e in harness.load_known(prop_id) if e.get("status") == "open"]
    stats = harness.Stats()
    os.makedirs(outdir, exist_ok=True)
    corpus = os.path.join(outdir, "corpus")
    os.makedirs(corpus, exist_ok=True)

    def flush():
        with open(os.path.join(outdir, "stats.json"), "w") as f:
            json.dump(stats.dump(), f)

    @settings(database=None, deadline=None, suppress_health_check=list(HealthCheck))
    @given(mod.strategy(tier))
    def prop(case):
        res = harness._run_one(mod, case, stats, open_ids)
        if stats.evaluations % 200 == 0:
            flush()
        if not res.ok and not res.known:
            flush()
            with open(os.path.join(outdir, "violation.json"), "w") as f:
                json.dump({"case": case, "msg": res.msg}, f, default=str)
            raise harness.Violation(res.msg)

    def target(data):
        prop.hypothesis.fuzz_one_input(data)

    atheris.Setup([sys.argv[0], f"-runs={runs}", f"-seed={seed}", "-max_len=8192", "-len_control=0", "-print_final_stats=0", f"-artifact_prefix={outdir}/", corpus], target)
    flush()
    atheris.Fuzz()


if __name__ == "__main__":
    main()
