"""python -m vf.run <ID> --tier quick|thorough [--replay file]   (cwd: /verif)

exit 0: held on everything explored; exit 1 + VIOLATION line; exit 2: harness error (never a violation).
"""
import argparse
import os
import sys

os.environ.setdefault("PYTHONHASHSEED", "0")
os.environ.setdefault("PYTHONDONTWRITEBYTECODE", "1")
sys.dont_write_bytecode = True

from vf.common.harness import main_run  # noqa: E402


def main():
    ap = argparse.ArgumentParser()
    ap.add_argument("prop")
    ap.add_argument("--tier", default=os.environ.get("VERIF_TIER", "quick"), choices=["quick", "thorough"])
    ap.add_argument("--replay", default=None)
    a = ap.parse_args()
    sys.exit(main_run(a.prop.upper(), a.tier, a.replay))


if __name__ == "__main__":
    main()
