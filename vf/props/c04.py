"""C04 - captured variables are frozen by value at the call, respecting scope.

case = {"vals": {"G1","G2","Ac","Abc2","K","v1","v2"}: value text, "v1_name": "v1"|"G2", "p": lambda parameter name,
        "items": [item templates], "history": [[op, arg]...]}
"""
import ast

from hypothesis import strategies as st

from vf.common import srcgen
from vf.common.harness import Result
from vf.sem import pyeval

ID = "C04"
RULE = (
    "Generated modules in which a lambda passed to Select refers to: closure variables of one and of two enclosing "
    "functions (one of them optionally named like an existing module global), module globals, a class constant, a nested "
    "class constant (A.B.c2), an attribute of another generated module (om.K); and in which such names are shadowed by the "
    "lambda's own parameter, by a nested lambda's parameter (depth <=3) or by a comprehension target while also existing as "
    "global/closure variable. Values: int/float/str(with quotes)/bool/bytes/complex (transportable) and list/dict/None/"
    "object instance/enum member held by the name (not transportable). Histories after the call: rebinding the closure variable through a nonlocal "
    "setter, rebinding/deleting the global, setting the class attribute and the other module's attribute, then value(). "
    "Non-trivial = >=1 capture and >=1 rebinding step, or >=1 shadowing binder whose name also exists outside. Distinct by module text + history."
)
ASSUMPTIONS = [
    "The reference value is what the real lambda object returns on a sample element at the moment Select is called; the "
    "emitted lambda is evaluated by CPython with NO access to the module namespace (an un-frozen name is a NameError).",
    "A capture that is used (not shadowed) and holds a non-transportable value must make the call raise ValueError.",
    "Enum members written as Enum.MEMBER in the lambda (documented to stay symbolic) and captured callables (C05) are not generated here; an enum member HELD by a captured variable / class constant / module attribute is a value like any other: a plain Enum member is not transportable (ValueError); an IntEnum member or an instance of a float subclass (what a numpy float is) is a number and must be embedded as that number - the emitted constant must be compilable, so its type must be exactly int / float.",
]
BUDGET = {"quick": (6, 1000), "thorough": (16, 6000)}

_T = st.one_of(
    st.integers(-5, 50).map(repr), st.sampled_from(["0.5", "2.25", "-1.5"]), st.sampled_from(["'s'", "\"it's\"", "'a\\\\b'", "''"]),
    st.sampled_from(["True", "False"]), st.sampled_from(["b'ab'", "2j"]),
    st.sampled_from(["Lvl.HIGH", "Lvl.LOW", "F64(2.5)"]),  # numbers that are instances of a SUBCLASS of int / float: embedded as the plain number
)
_NUM = st.one_of(st.integers(-5, 50).map(repr), st.sampled_from(["0.5", "2.25"]))
_NT = st.sampled_from(["[1, 2]", "{'k': 1}", "None", "Obj()", "(1, 2)", "{1, 2}", "Col.RED"])  # a plain Enum member HELD by a name: not a value a literal can represent

REFS = {"v1": "{v1}", "v2": "v2", "G1": "G1", "Ac": "A.c", "Abc2": "A.B.c2", "K": "om.K"}


@st.composite
def _case(draw):
    vals = {}
    numeric = {}
    nontrans = {}
    for k in ["G1", "G2", "Ac", "Abc2", "K", "v1", "v2"]:
        c = draw(st.integers(0, 9))
        if c <= 4:
            vals[k], numeric[k], nontrans[k] = draw(_NUM), True, False
        elif c <= 7:
            vals[k], numeric[k], nontrans[k] = draw(_T), False, False
        else:
            vals[k], numeric[k], nontrans[k] = draw(_NT), False, True
    v1_name = draw(st.sampled_from(["v1", "v1", "G2"]))
    p = draw(st.sampled_from(["e", "e", "G1", "v2", "x0"]))
    shadowed_by_param = {"G1": "G1", "v2": "v2"}.get(p)
    items = []
    used = set()
    may_refuse = False
    n = draw(st.integers(1, 4))
    for _ in range(n):
        k = draw(st.integers(0, 19))
        ref_key = draw(st.sampled_from([r for r in REFS if r != shadowed_by_param]))
        ref = REFS[ref_key].replace("{v1}", v1_name)
        num = numeric[ref_key]
        if k <= 2:
            items.append(f"({p}.n, {ref})")
            used.add(ref_key)
        elif k == 3 and num:
            items.append(f"{p}.n + {ref}")
            used.add(ref_key)
        elif k == 4:
            items.append(f"{p}.xs.Select(lambda x: (x, {ref}))")
            used.add(ref_key)
        elif k == 5:
            items.append(f"[(x, {ref}) for x in {p}.xs]")
            used.add(ref_key)
        elif k == 6 and num:
            items.append(f"[x + {ref} for x in {p}.xs if x > {ref} - 100]")
            used.add(ref_key)
        elif k == 7:  # nested lambda parameter shadows a global / closure variable
            s = draw(st.sampled_from(["G1", v1_name, "v2", "A", "om", p]))
            items.append(f"{p}.xs.Select(lambda {s}: {s} + 1)")
            if s == p:  # the outer parameter is used again, as a bare name, after an inner scope re-bound its name
                items.append(f"({p}.n, {p})")
        elif k == 8:  # comprehension target shadows
            s = draw(st.sampled_from(["G1", v1_name, "v2", p]))
            items.append(draw(st.sampled_from([f"[{s} * 2 for {s} in {p}.xs]", f"[{s} * 2 for {s} in {p}.xs if {s} > 1]", f"[x for x in [{s} for {s} in {p}.xs if {s} != 2 if {s} > 0]]"])))
            if s == p:
                items.append(f"{p}.xs.Select(lambda q: (q, {p}))")
        elif k == 9:  # depth 3 with a shadow in the innermost lambda and a capture next to it
            s = draw(st.sampled_from(["G1", "v2"]))
            if s != p and ref_key != s:
                items.append(f"{p}.xs.Select(lambda x: {p}.xs.Select(lambda {s}: ({s} + x, {ref})))")
                used.add(ref_key)
        elif k == 10 and draw(st.integers(0, 2)) == 0 and not any("W9" in it for it in items):
            # the target of an assignment expression is a variable of the lambda, also when a module variable is spelled like it
            items.append(f"((W9 := {p}.n) + W9)")
        elif k == 10:
            items.append(f"({ref}, {ref})")
            used.add(ref_key)
        elif k == 16:
            # parameters of every kind hide a captured variable of the same name (the called lambda is applied by python itself)
            s = draw(st.sampled_from(["G1", v1_name, "v2"]))
            if s != p:
                items.append(draw(st.sampled_from([f"(lambda *{s}: {s}[0])({p}.n)", f"(lambda *, {s}: {s})({s}={p}.n)", f"(lambda {s}, /: {s})({p}.n)",
                                                   f"(lambda **{s}: {s}['k'])(k={p}.n)"])))
        elif k == 17 and ref_key in ("G1", "v2", "v1"):
            # ... while the DEFAULT value of a parameter is read outside the lambda: the captured name there is frozen
            items.append(f"(lambda {ref}={ref}: ({p}.n, {ref}))()")
            used.add(ref_key)
        elif k == 18 and num:
            # a method called on the captured value: the receiver is frozen too
            items.append(f"({p}.n, {ref}.conjugate())")
            used.add(ref_key)
            may_refuse = True  # the type follower knows the class of a literal and may refuse a builtin method without a signature
        elif k == 19:
            # a module used as a bare value cannot be transported
            items.append(f"({p}.n, om)")
            used.add("om!")
        elif k in (14, 15):  # the name is captured by an inlined one-line helper function, not by the lambda itself
            hk = draw(st.sampled_from(["G1", "Ac", "v1"]))
            if hk != shadowed_by_param or hk != "G1":
                items.append({"G1": f"hg({p}.n)", "Ac": f"ha({p}.n)", "v1": f"hv({p}.n)"}[hk])
                used.add(hk)
        elif k == 12:  # the captured value sits in the receiver chain of a parameterized call obj.m[T](...)
            items.append(f"{p}.pick({ref}).get[int](1)")
            used.add(ref_key)
        elif k == 13:  # ... or is its direct argument
            items.append(f"{p}.pick(1).get[float]({ref})")
            used.add(ref_key)
        elif k == 11 and draw(st.booleans()):
            # the (possibly shadowing) lambda parameter used inside a nested lambda: not the innermost binder frame
            items.append(f"{p}.xs.Select(lambda x: {p}.xs.Select(lambda y: (x + y + {p}.n, {p})))")
        elif k == 11 and num and ref_key in ("G1", "v2", "v1"):
            # first iterable of a comprehension is evaluated in the enclosing scope: the captured name there is frozen
            items.append(f"[{ref} * 2 for {ref} in {p}.xs.Select(lambda x: x + {ref})]")
            used.add(ref_key)
        else:
            items.append(f"{p}.n * 2")
    if not items:
        items.append(f"{p}.n")
    hist = draw(st.lists(st.tuples(st.sampled_from(["set_v1", "set_G1", "del_G1", "set_Ac", "set_K", "set_G2", "set_Abc2"]), st.one_of(_T, _NT)).map(list), max_size=4))
    if draw(st.booleans()):
        hist.append(["value", ""])
    if draw(st.booleans()):
        hist.append(["call-again", ""])  # the query-building function is called a second time, after the rebinding steps
    return {"vals": vals, "v1_name": v1_name, "p": p, "items": items, "history": hist,
            "used": sorted(u for u in used if u != "om!"), "refuse": any(u == "om!" or nontrans[u] for u in used), "may_refuse": may_refuse}


def strategy(tier):
    return _case()


def module_text(case, om_name):
    v = case["vals"]
    body = "(" + ", ".join(case["items"]) + ("," if len(case["items"]) == 1 else "") + ")"
    return f'''import {om_name} as om
import enum
class Obj:
    pass
class Lvl(enum.IntEnum):
    LOW = 1
    HIGH = 2
class Col(enum.Enum):
    RED = 1
class F64(float):
    pass
G1 = {v["G1"]}
G2 = {v["G2"]}
W9 = 41
class A:
    c = {v["Ac"]}
    class B:
        c2 = {v["Abc2"]}
OUT = {{}}
def hg(q):
    return (q, G1)
def ha(q):
    return (q, A.c)
def make(ds):
    {case["v1_name"]} = {v["v1"]}
    def set_v1(x):
        nonlocal {case["v1_name"]}
        {case["v1_name"]} = x
    def hv(q):
        return (q, {case["v1_name"]})
    def inner():
        v2 = {v["v2"]}
        return ds.Select(lambda {case["p"]}: {body})
    OUT["set_v1"] = set_v1
    return inner()
'''


class _Picked:
    """result of e.pick(v): `.get[T](a)` is a parameterized call that reports what it was given"""

    def __init__(self, v):
        self._v = v

    @property
    def get(self):
        v = self._v

        class _G:
            def __getitem__(self, t):
                return lambda a: ("picked", v, getattr(t, "__name__", str(t)), a)

        return _G()


class _Elem:
    def __init__(self):
        self._vf_id = 1
        self.n = 5
        self.xs = pyeval.Seq([1, 2, 3])

    def pick(self, v):
        return _Picked(v)


def check(case) -> Result:
    from func_adl import EventDataset

    r = Result(key=repr(case))
    log = []

    class RecDS(EventDataset):
        async def execute_result_async(self, a, title=None):
            return a

        def Select(self, f):
            try:
                v0 = ("ok", pyeval.materialise(f(_Elem())))
            except Exception as e:  # the real lambda itself fails on the sample (e.g. int + str): nothing to compare
                v0 = ("exc", type(e).__name__)
            log.append(v0)
            return EventDataset.Select(self, f)

    om = srcgen.load("import enum\nclass Obj:\n    pass\nclass Lvl(enum.IntEnum):\n    LOW = 1\n    HIGH = 2\nclass Col(enum.Enum):\n    RED = 1\nclass F64(float):\n    pass\n" + f"K = {case['vals']['K']}\n", prefix="vfom")
    mod = None
    try:
        text = module_text(case, om.__name__)
        r.sample = {"module": text, "history": case["history"]}
        mod = srcgen.load(text)
        shadows = any(("lambda G1" in it or "lambda v2" in it or "for G1" in it or "for v2" in it or f"lambda {case['v1_name']}:" in it or f"for {case['v1_name']} " in it
                       or "lambda A:" in it or "lambda om:" in it) for it in case["items"]) or case["p"] in ("G1", "v2")
        if shadows:
            r.labels.append("shadowing-binder")
        if case["v1_name"] == "G2":
            r.labels.append("closure-named-like-a-global")
        for u in case["used"]:
            r.labels.append("capture:" + u)
        rebinds = [h for h in case["history"] if h[0] != "value"]
        r.nontrivial = (bool(case["used"]) and bool(rebinds)) or shadows
        ds = RecDS()
        try:
            s = mod.make(ds)
        except ValueError as e:
            r.labels.append("outcome:ValueError")
            if log and log[-1][0] == "exc":
                r.ref_error = True  # python itself cannot evaluate this lambda (e.g. interpreter scoping corner): nothing is required
                return r
            if not case["refuse"] and not (case.get("may_refuse") and "no signature found" in str(e)):
                return r.fail(f"ValueError although every captured value is transportable: {e}\n{text}")
            return r
        except Exception as e:
            return r.fail(f"capturing raised {type(e).__name__}: {e}\n{text}")
        if log and log[-1][0] == "exc":
            r.ref_error = True
            return r
        if case["refuse"]:
            return r.fail(f"a non-transportable captured value was emitted: {ast.unparse(s.query_ast.args[1])}\n{text}")
        r.labels.append("outcome:emitted")
        v0 = log[-1]
        if v0[0] == "exc":
            r.ref_error = True
            return r
        dump0 = ast.dump(s.query_ast)

        def eval_emitted(q, what):
            lam = q.args[1]
            try:
                fn = pyeval.evaluate(lam, {"int": int, "float": float})
                got = pyeval.materialise(fn(_Elem()))
            except Exception as e:
                return f"{what}: the emitted lambda `{ast.unparse(lam)}` fails without the module namespace: {type(e).__name__}: {e}\n{text}"
            if got != v0[1]:
                return f"{what}: the emitted lambda `{ast.unparse(lam)}` gives {got}, the real lambda gave {v0[1]} when Select was called\n{text}"
            return None

        err = eval_emitted(s.query_ast, "at the call")
        if err:
            return r.fail(err)
        for op, arg in case["history"]:
            try:
                val = eval(arg, {"Obj": mod.Obj, "Lvl": mod.Lvl, "Col": mod.Col, "F64": mod.F64}) if arg else None
                if op == "set_v1":
                    mod.OUT["set_v1"](val)
                elif op == "set_G1":
                    mod.G1 = val
                elif op == "set_G2":
                    mod.G2 = val
                elif op == "del_G1":
                    if hasattr(mod, "G1"):
                        del mod.G1
                elif op == "set_Ac":
                    mod.A.c = val
                elif op == "set_Abc2":
                    mod.A.B.c2 = val
                elif op == "set_K":
                    om.K = val
                elif op == "call-again":
                    try:
                        s2 = mod.make(ds)
                    except Exception:
                        continue  # the rebound values may be non-transportable or break the lambda: nothing to compare
                    if log[-1][0] == "ok":
                        lam2 = s2.query_ast.args[1]
                        try:
                            got2 = pyeval.materialise(pyeval.evaluate(lam2, {"int": int, "float": float})(_Elem()))
                        except Exception as e:
                            return r.fail(f"second call (after rebinding): emitted lambda `{ast.unparse(lam2)}` fails: {type(e).__name__}: {e}\n{text}")
                        if got2 != log[-1][1]:
                            return r.fail(f"second call (after rebinding): emitted lambda `{ast.unparse(lam2)}` gives {got2}, the real lambda now gives {log[-1][1]}\n{text}")
                    r.labels.append("called-twice")
                    continue
                elif op == "value":
                    coro = s.value_async()
                    try:
                        coro.send(None)
                        raise AssertionError("harness: executor did not finish")
                    except StopIteration as si:
                        err = eval_emitted(si.value, "query handed to the executor")
                        if err:
                            return r.fail(err)
            except AssertionError:
                raise
            except Exception as e:
                raise AssertionError(f"harness: history step {op} failed: {type(e).__name__}: {e}")
            if ast.dump(s.query_ast) != dump0:
                return r.fail(f"after {op}({arg}) the query changed: {ast.unparse(s.query_ast)}\n{text}")
            err = eval_emitted(s.query_ast, f"after {op}({arg})")
            if err:
                return r.fail(err)
        return r
    finally:
        if mod is not None:
            srcgen.unload(mod)
        srcgen.unload(om)


def selftest():
    case = {"vals": {"G1": "7", "G2": "1", "Ac": "'s'", "Abc2": "2j", "K": "0.5", "v1": "3", "v2": "b'x'"}, "v1_name": "v1", "p": "e",
            "items": ["(e.n, v1)", "[G1 * 2 for G1 in e.xs]"], "history": [], "used": ["v1"], "refuse": False}
    compile(module_text(case, "os"), "<c04>", "exec")
