"""C18 - simplification is total on well-formed queries.

case = same as C02 (src/data/naming), generated with odd literal selectors switched on.
"""
from __future__ import annotations

import ast

from hypothesis import strategies as st

from vf.common.harness import Result
from vf.props import c02

ID = "C18"
RULE = (
    "C02's typed grammar plus literal projections with variable, negative, slice, out-of-range and absent-key "
    "selectors in every position (direct, reached after beta-reduction of a called lambda, under First, through a fused "
    "stage). Non-trivial = the query contains >=1 odd selector (or a planted out-of-range constant index) AND the "
    "simplifier changed the tree or raised its index error. Distinct by source text + data."
)
ASSUMPTIONS = [
    "FuncADLIndexError is permitted only when the query text contains a constant index beyond the end of a tuple/list "
    "literal, or a variable index into a tuple/list literal (which beta-reduction may turn into such a constant); both are "
    "planted by the generator and detected syntactically (the literal written in place, bound to a parameter of a called lambda, or "
    "First() of a Select whose lambda returns it).",
    "'Semantically intact' = whenever the original evaluates under CPython list semantics the result evaluates to the "
    "same value; unparse + compile of the result must always succeed.",
    "RecursionError on these bounded sizes counts as non-termination.",
    "Values are compared under a *total* semantics: a failing literal projection yields an absorbing ERR value instead of "
    "raising, so a rewrite that turns an erroring odd projection into an ordinary value (or back) is visible.",
]
ATHERIS_RUNS = 4000  # thorough tier only: coverage-guided supplement (vf/fuzz.py)
BUDGET = {"quick": (8, 1300), "thorough": (16, 12000)}


@st.composite
def _case(draw, maxdepth):
    c = draw(c02.case_strategy(maxdepth, odd=True))
    return c


def strategy(tier):
    return _case(3 if tier == "quick" else 4)


def _reach(node, scope):
    """the tuple / list / dict literals an expression may denote: written in place, bound to a parameter of a called lambda,
    First() of a Select whose lambda returns one, either arm of a conditional"""
    if isinstance(node, (ast.Tuple, ast.List, ast.Dict)):
        return [node]
    if isinstance(node, ast.Name):
        return scope.get(node.id, [])
    if isinstance(node, ast.IfExp):
        return _reach(node.body, scope) + _reach(node.orelse, scope)
    if isinstance(node, ast.Call):
        f = node.func
        if isinstance(f, ast.Lambda):
            return _reach(f.body, _bind_called(f, node, scope))
        first_arg = None
        if isinstance(f, ast.Name) and f.id == "First" and len(node.args) == 1:
            first_arg = node.args[0]
        elif isinstance(f, ast.Attribute) and f.attr == "First" and not node.args:
            first_arg = f.value
        if first_arg is not None and isinstance(first_arg, ast.Call):
            g = first_arg.func
            lam = None
            if isinstance(g, ast.Name) and g.id == "Select" and len(first_arg.args) == 2:
                lam = first_arg.args[1]
            elif isinstance(g, ast.Attribute) and g.attr == "Select" and len(first_arg.args) == 1:
                lam = first_arg.args[0]
            if isinstance(lam, ast.Lambda):
                return _reach(lam.body, {**scope, **{a.arg: [] for a in lam.args.args}})
    return []


def _bind_called(lam, call, scope):
    new = dict(scope)
    params = list(lam.args.posonlyargs) + list(lam.args.args)
    for a in params + list(lam.args.kwonlyargs):
        new[a.arg] = []
    for a, d in zip(params[len(params) - len(lam.args.defaults):], lam.args.defaults):
        new[a.arg] = _reach(d, scope)
    for a, d in zip(lam.args.kwonlyargs, lam.args.kw_defaults):
        if d is not None:
            new[a.arg] = _reach(d, scope)
    for a, v in zip(params, call.args):
        new[a.arg] = _reach(v, scope)
    for kw in call.keywords:
        if kw.arg is not None:
            new[kw.arg] = _reach(kw.value, scope)
    return new


def _odd_selectors(tree):
    """(n_odd, planted_out_of_range)"""
    n_odd = 0
    planted = False

    def visit(n, scope):
        nonlocal n_odd, planted
        if isinstance(n, ast.Subscript):
            for base in _reach(n.value, scope):
                s = n.slice
                if isinstance(base, (ast.Tuple, ast.List)) and not isinstance(s, (ast.Constant, ast.Slice)) \
                        and not (isinstance(s, ast.UnaryOp) and isinstance(s.operand, ast.Constant)):
                    planted = True  # a variable index may become an out-of-range constant after beta reduction
                if isinstance(base, ast.Dict):
                    keys = [k.value for k in base.keys if isinstance(k, ast.Constant)]
                    if not (isinstance(s, ast.Constant) and s.value in keys):
                        n_odd += 1
                elif isinstance(s, ast.Constant) and type(s.value) is int:
                    if s.value >= len(base.elts):
                        planted = True
                        n_odd += 1
                else:
                    n_odd += 1
        if isinstance(n, ast.Attribute):
            for base in _reach(n.value, scope):
                if isinstance(base, ast.Dict):
                    keys = [k.value for k in base.keys if isinstance(k, ast.Constant)]
                    if n.attr not in keys:
                        n_odd += 1
        if isinstance(n, ast.Call) and isinstance(n.func, ast.Lambda):
            for c in list(n.args) + [k.value for k in n.keywords] + list(n.func.args.defaults) + [d for d in n.func.args.kw_defaults if d is not None]:
                visit(c, scope)
            visit(n.func.body, _bind_called(n.func, n, scope))
            return
        if isinstance(n, ast.Lambda):
            for d in list(n.args.defaults) + [d for d in n.args.kw_defaults if d is not None]:
                visit(d, scope)
            visit(n.body, {**scope, **{a.arg: [] for a in list(n.args.posonlyargs) + list(n.args.args) + list(n.args.kwonlyargs)}})
            return
        for c in ast.iter_child_nodes(n):
            visit(c, scope)

    visit(tree, {})
    return n_odd, planted


def _maybe_reached_out_of_range(tree):
    """conservative: a constant int subscript >= 1 anywhere may hit a shorter literal after beta reduction"""
    return False


def check(case) -> Result:
    r = Result(sample={"src": case["src"], "events": len(case["data"])}, key=case["src"] + repr(case["data"]))
    r.labels.append("naming:" + case.get("naming", "?"))
    tree0 = ast.parse(case["src"], mode="eval").body
    n_odd, planted = _odd_selectors(tree0)
    if planted:
        r.labels.append("planted-out-of-range")
    if n_odd:
        r.labels.append("odd-selector")
    try:
        tree, out, expect = c02.semantic_check(case, r, allow_index_error=True, total=True)
    except RecursionError:
        return r.fail(f"simplifier did not terminate (RecursionError) on {case['src']}")
    c02.shape_labels(tree, r)
    if not r.ok:
        return r
    if out is None:  # FuncADLIndexError
        if not planted:
            return r.fail(f"FuncADLIndexError although no constant index lies beyond the end of a literal: {case['src']}")
        r.nontrivial = True
        return r
    changed = ast.dump(out) != ast.dump(tree)
    if changed:
        r.labels.append("rewritten")
    r.nontrivial = n_odd > 0 and changed
    # syntactically valid: unparse + compile
    try:
        text = ast.unparse(ast.fix_missing_locations(out))
    except Exception as e:
        return r.fail(f"result cannot be unparsed ({type(e).__name__}: {e}); input {case['src']}; dump {ast.dump(out)[:300]}")
    try:
        compile(text, "<c18>", "eval")
    except Exception as e:
        return r.fail(f"unparsed result does not compile ({type(e).__name__}: {e}): {text}")
    return c02.compare_values(case, r, tree, out, expect, total=True)


def selftest():
    t = ast.parse("((a, b)[5], [a][-1], (a, b)[0:1], {'k': a}['z'], {'k': a}.z, (a, b)[i], (a, b)[1])", mode="eval").body
    assert _odd_selectors(t) == (6, True), _odd_selectors(t)
    assert _odd_selectors(ast.parse("((a, b)[-1], [a][0:1], {'k': a}.z)", mode="eval").body) == (3, False)
