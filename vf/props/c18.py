"""C18 - simplification is total on well-formed queries.

case = same as C02 (src/data/naming), generated with odd literal selectors switched on.
"""
from __future__ import annotations

import ast

from hypothesis import strategies as st

from vf.common.harness import Result
from vf.props import c02

ID = "C18"
RULE = (
    "C02's typed grammar plus literal projections with variable, negative, slice, out-of-range and absent-key "
    "selectors in every position (direct, reached after beta-reduction of a called lambda, under First, through a fused "
    "stage). Non-trivial = the query contains >=1 odd selector (or a planted out-of-range constant index) AND the "
    "simplifier changed the tree or raised its index error. Distinct by source text + data."
)
ASSUMPTIONS = [
    "FuncADLIndexError is permitted only when the query text contains a constant index beyond the end of a tuple/list "
    "literal, or a variable index into a tuple/list literal (which beta-reduction may turn into such a constant); both are "
    "planted by the generator and detected syntactically.",
    "'Semantically intact' = whenever the original evaluates under CPython list semantics the result evaluates to the "
    "same value; unparse + compile of the result must always succeed.",
    "RecursionError on these bounded sizes counts as non-termination.",
    "Values are compared under a *total* semantics: a failing literal projection yields an absorbing ERR value instead of "
    "raising, so a rewrite that turns an erroring odd projection into an ordinary value (or back) is visible.",
]
ATHERIS_RUNS = 4000  # thorough tier only: coverage-guided supplement (vf/fuzz.py)
BUDGET = {"quick": (8, 1300), "thorough": (16, 12000)}


@st.composite
def _case(draw, maxdepth):
    c = draw(c02.case_strategy(maxdepth, odd=True))
    return c


def strategy(tier):
    return _case(3 if tier == "quick" else 4)


def _odd_selectors(tree):
    """(n_odd, planted_out_of_range)"""
    n_odd = 0
    planted = False
    for n in ast.walk(tree):
        if isinstance(n, ast.Subscript) and isinstance(n.value, (ast.Tuple, ast.List)) and not isinstance(n.slice, (ast.Constant, ast.Slice)) \
                and not (isinstance(n.slice, ast.UnaryOp) and isinstance(n.slice.operand, ast.Constant)):
            # a variable index may become an out-of-range constant after beta reduction
            planted = True
        if isinstance(n, ast.Subscript) and isinstance(n.value, (ast.Tuple, ast.List, ast.Dict)):
            s = n.slice
            if isinstance(n.value, ast.Dict):
                keys = [k.value for k in n.value.keys if isinstance(k, ast.Constant)]
                if not (isinstance(s, ast.Constant) and s.value in keys):
                    n_odd += 1
            elif isinstance(s, ast.Constant) and type(s.value) is int:
                if s.value >= len(n.value.elts):
                    planted = True
                    n_odd += 1
            else:
                n_odd += 1
        if isinstance(n, ast.Attribute) and isinstance(n.value, ast.Dict):
            keys = [k.value for k in n.value.keys if isinstance(k, ast.Constant)]
            if n.attr not in keys:
                n_odd += 1
    return n_odd, planted


def _maybe_reached_out_of_range(tree):
    """conservative: a constant int subscript >= 1 anywhere may hit a shorter literal after beta reduction"""
    return False


def check(case) -> Result:
    r = Result(sample={"src": case["src"], "events": len(case["data"])}, key=case["src"] + repr(case["data"]))
    r.labels.append("naming:" + case.get("naming", "?"))
    tree0 = ast.parse(case["src"], mode="eval").body
    n_odd, planted = _odd_selectors(tree0)
    if planted:
        r.labels.append("planted-out-of-range")
    if n_odd:
        r.labels.append("odd-selector")
    try:
        tree, out, expect = c02.semantic_check(case, r, allow_index_error=True, total=True)
    except RecursionError:
        return r.fail(f"simplifier did not terminate (RecursionError) on {case['src']}")
    c02.shape_labels(tree, r)
    if not r.ok:
        return r
    if out is None:  # FuncADLIndexError
        if not planted:
            return r.fail(f"FuncADLIndexError although no constant index lies beyond the end of a literal: {case['src']}")
        r.nontrivial = True
        return r
    changed = ast.dump(out) != ast.dump(tree)
    if changed:
        r.labels.append("rewritten")
    r.nontrivial = n_odd > 0 and changed
    # syntactically valid: unparse + compile
    try:
        text = ast.unparse(ast.fix_missing_locations(out))
    except Exception as e:
        return r.fail(f"result cannot be unparsed ({type(e).__name__}: {e}); input {case['src']}; dump {ast.dump(out)[:300]}")
    try:
        compile(text, "<c18>", "eval")
    except Exception as e:
        return r.fail(f"unparsed result does not compile ({type(e).__name__}: {e}): {text}")
    return c02.compare_values(case, r, tree, out, expect, total=True)


def selftest():
    t = ast.parse("((a, b)[5], [a][-1], (a, b)[0:1], {'k': a}['z'], {'k': a}.z, (a, b)[i], (a, b)[1])", mode="eval").body
    assert _odd_selectors(t) == (6, True), _odd_selectors(t)
    assert _odd_selectors(ast.parse("((a, b)[-1], [a][0:1], {'k': a}.z)", mode="eval").body) == (3, False)
