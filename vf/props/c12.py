"""C12 - value() runs exactly the stream's query on its own dataset, once.

case = {"roots": [{"typed": bool, "mode": "return"|"raise"}...], "ops": [...]}   ('on' modulo number of streams so far)
ops: derive {"op": "Select"|"Where"|"SelectMany"|"MetaData"|"QMetaData"|"terminal", ...}
     {"op": "value", "on", "title"}  {"op": "value_async", "on", "title", "override": bool}
     {"op": "batch", "on": [..], "order": [..]}   concurrently awaited executions, released in the given order
     {"op": "bad_root", "kind": "none"|"two"}
"""
import ast
from typing import Iterable  # noqa: F401

from hypothesis import strategies as st

from vf.common.harness import Result
from vf.props import c15

ID = "C12"
RULE = (
    "Histories (4-25 steps) over 1-3 datasets (typed with MetaData-adding callbacks incl. empty ones, and untyped; executor "
    "returning a unique sentinel per call or raising a unique exception): derivations with all operators, MetaData (incl. "
    "empty), QMetaData and the four result terminals; value(title), value_async with and without an override executor (a plain coroutine function, or a callable recorder object that is falsy while its log is empty); "
    "concurrent batches of 2-5 value_async coroutines (each with its own title, the same stream possibly twice) on streams of (different) datasets whose executors wait on "
    "harness-owned gates that are released in a generated permutation, every coroutine stepped by hand; hand-assembled "
    "queries with no root or two roots. Non-trivial = >=2 datasets and (a batch released out of start order, or an "
    "execution after further derivations from the same parent). Distinct by history."
)
ASSUMPTIONS = [
    "The harness owns the schedule of awaited executions completely (custom awaitable gates, no event loop, no clock); "
    "pre-emptive thread interleavings inside make_it_sync are not explored (value() is used at most twice per history).",
    "The reference for the AST an executor must receive is: the stream's query with exactly the MetaData wrappers whose "
    "dictionary is empty removed (12-line pure function), compared by ast.dump.",
]
BUDGET = {"quick": (6, 250), "thorough": (16, 3000)}

LAMS = {
    "Select": ["lambda e: e.jets()", "lambda e: e.met() + 1", "lambda e: {'a': e.met(), 'b': e.jets()}", "lambda e: e.jets().Select(lambda j: j.pt())", "lambda e: e",
               # node lists with entries that are not nodes (the None key of a ** spread, the None default of a keyword-only parameter)
               "lambda e: {**e.info(), 'pt': e.met()}", "lambda e: ({'n': 1, **e.info(), 'k': e.met()}, (lambda q, *, w=None, z=1: q)(e.met()))"],
    "Where": ["lambda e: e.met() > 1", "lambda e: e.jets().Count() > 0"],
    "SelectMany": ["lambda e: e.jets()", "lambda e: e.jets().Where(lambda j: j.pt() > 1)"],
}


@st.composite
def _op(draw, nroots):
    k = draw(st.integers(0, 19))
    on = draw(st.one_of(st.just(-1), st.just(-2), st.integers(0, 30)))
    if k <= 6:
        op = draw(st.sampled_from(["Select", "Select", "Where", "SelectMany"]))
        return {"op": op, "on": on, "f": draw(st.integers(0, len(LAMS[op]) - 1))}
    if k == 7:
        return {"op": "MetaData", "on": on, "d": draw(st.sampled_from([{}, {}, {"m": 1}]))}
    if k == 8:
        return {"op": "QMetaData", "on": on, "d": draw(st.sampled_from([{"a": 1}, {"b": 2}]))}
    if k == 9:
        return {"op": "terminal", "on": on, "t": draw(st.integers(0, 3))}
    if k <= 12:
        return {"op": "value_async", "on": on, "title": draw(st.sampled_from([None, "t1", "it's"])), "override": draw(st.integers(0, 3)) == 0}
    if k == 13:
        return {"op": "value", "on": on, "title": draw(st.sampled_from([None, "sync"]))}
    if k <= 17:
        n = draw(st.integers(2, 5))
        ons = draw(st.lists(st.one_of(st.integers(0, 30), st.integers(-4, -1)), min_size=n, max_size=n))
        # every member of the batch has its own title (state shared between in-flight executions would mix them up)
        titles = draw(st.one_of(st.just(None), st.lists(st.sampled_from([None, "b", "b2", "", "it's"]), min_size=n, max_size=n)))
        return {"op": "batch", "on": ons, "order": draw(st.permutations(list(range(n)))), "title": draw(st.sampled_from([None, "b"])), "titles": titles}
    return {"op": "bad_root", "kind": draw(st.sampled_from(["none", "two"]))}


@st.composite
def _case(draw, maxlen):
    roots = draw(st.lists(st.fixed_dictionaries({"typed": st.booleans(), "mode": st.sampled_from(["return", "return", "raise"]), "exc": st.integers(0, 7)}), min_size=1, max_size=3))
    return {"roots": roots, "ops": draw(st.lists(_op(len(roots)), min_size=4, max_size=maxlen))}


def strategy(tier):
    return _case(18 if tier == "quick" else 28)


class Gate:
    def __init__(self):
        self.open = False

    def __await__(self):
        while not self.open:
            yield self
        return None


class Sentinel:
    def __init__(self, tag):
        self.tag = tag


class Boom(Exception):
    pass


class BoomRuntime(RuntimeError):
    pass


class BoomNotImplemented(NotImplementedError):
    pass


class BoomValue(ValueError):
    pass


class BoomKey(KeyError):
    pass


class BoomOS(OSError):
    pass


# what an executor may raise: whatever it is, value()/value_async() must let exactly that object through, once
EXC = [Boom, BoomRuntime, BoomNotImplemented, BoomValue, BoomKey, BoomOS, Boom, BoomRuntime]


def _ref_received(q):
    """what the executor must be handed: q with exactly the empty MetaData wrappers removed (on a re-parsed copy)"""
    return ast.dump(c15.ref_remove_empty(ast.parse(ast.unparse(q), mode="eval").body))


def check(case) -> Result:
    from func_adl import EventDataset, ObjectStream, find_EventDataset, func_adl_callback

    r = Result(sample=case, key=repr(case))

    def cb_cls(s: ObjectStream, a: ast.Call):
        return s.MetaData({"cb": "Evt"}), a

    def cb_empty(s: ObjectStream, a: ast.Call):
        return s.MetaData({}), a

    class Jet:
        @func_adl_callback(cb_empty)
        def pt(self, scale: float = 1.0) -> float: ...

    @func_adl_callback(cb_cls)
    class Evt:
        def jets(self, name: str = "x") -> Iterable[Jet]: ...

        def met(self) -> float: ...

    class DS(EventDataset):
        def __init__(self, idx, typed, mode, exc=0):
            if typed:
                super().__init__(Evt)
            else:
                super().__init__()
            self.idx, self.mode, self.calls, self.gated, self.exc = idx, mode, [], False, EXC[exc % len(EXC)]

        async def execute_result_async(self, a, title=None):
            call = {"ast": a, "title": title, "gate": Gate() if self.gated else None}
            call["out"] = Sentinel((self.idx, len(self.calls))) if self.mode == "return" else self.exc(f"ds{self.idx}#{len(self.calls)}")
            self.calls.append(call)
            if call["gate"] is not None:
                await call["gate"]
            if self.mode == "raise":
                raise call["out"]
            return call["out"]

    roots = [DS(i, x["typed"], x["mode"], x.get("exc", 0)) for i, x in enumerate(case["roots"])]
    streams = [[d, i, None] for i, d in enumerate(roots)]  # stream, root index, parent
    executed_parents = set()
    feats = {"batch-out-of-order": False, "exec-after-rederive": False, "override": False, "raise": False, "terminal-exec": False, "batch-distinct-titles": False, "batch-same-stream-twice": False, "override-falsy-callable": False}

    def total_calls():
        return [len(d.calls) for d in roots]

    def expect_outcome(fn, call_getter, what):
        """run fn(); the result must BE the executor's sentinel, or the raised object must BE its exception"""
        try:
            res = fn()
        except tuple(EXC) as e:
            call = call_getter()
            if call is None or call["out"] is not e:
                return f"{what}: raised {e!r}, which is not the object the stream's executor raised"
            feats["raise"] = True
            return None
        except Exception as e:
            return f"{what}: raised {type(e).__name__}: {e}"
        call = call_getter()
        if call is None:
            return f"{what}: no executor call was recorded"
        if isinstance(call["out"], tuple(EXC)):
            return f"{what}: the executor raised but value returned {res!r}"
        if res is not call["out"]:
            return f"{what}: returned {getattr(res, 'tag', res)!r}, the executor returned {call['out'].tag!r}"
        return None

    def check_call(s, root, call, title, what):
        want = _ref_received(s.query_ast)
        if ast.dump(call["ast"]) != want:
            return f"{what}: executor received {ast.unparse(call['ast'])[:300]} but the stream's query (empty MetaData removed) is {ast.unparse(s.query_ast)[:300]}"
        if call["title"] != title or type(call["title"]) is not type(title):
            return f"{what}: title {title!r} arrived as {call['title']!r}"
        return None

    n_value = 0
    for step, op in enumerate(case["ops"]):
        kind = op["op"]
        before = total_calls()
        try:
            if kind in LAMS or kind in ("MetaData", "QMetaData", "terminal"):
                on = op["on"] % len(streams)
                s, root, _ = streams[on]
                try:
                    if kind in LAMS:
                        n = getattr(s, kind)(LAMS[kind][op["f"] % len(LAMS[kind])])
                    elif kind == "MetaData":
                        n = s.MetaData(dict(op["d"]))
                    elif kind == "QMetaData":
                        n = s.QMetaData(dict(op["d"]))
                    else:
                        n = [lambda x: x.AsAwkwardArray(["c"]), lambda x: x.AsPandasDF("c"), lambda x: x.AsROOTTTree("f.root", "t", ["c"]),
                             lambda x: x.AsParquetFiles("f.pq", ["c"])][op["t"]](s)
                except (ValueError, AttributeError, AssertionError, KeyError, TypeError):
                    n = None  # the lambda does not fit this stream's item type
                if total_calls() != before:
                    return r.fail(f"step {step}: an executor was invoked while building a query ({kind})")
                if n is not None:
                    streams.append([n, root, on])
                    if on in executed_parents:
                        feats["exec-after-rederive"] = True
                    node = find_EventDataset(n.query_ast)
                    if getattr(node, "_eds_object", None) is not roots[root]:
                        return r.fail(f"step {step}: find_EventDataset on the derived query does not give back the root dataset object")
                continue
            if kind == "bad_root":
                q = ast.parse("Select(ds, lambda e: e.x)", mode="eval").body
                if op["kind"] == "two":
                    q = ast.Call(func=ast.Name(id="Zip", ctx=ast.Load()), args=[roots[0].query_ast, roots[-1].Select("lambda e: e").query_ast], keywords=[])
                try:
                    find_EventDataset(q)
                except Exception:
                    continue
                return r.fail(f"step {step}: find_EventDataset accepted a query with {op['kind']} root dataset(s)")
            if kind in ("value", "value_async"):
                on = op["on"] % len(streams)
                s, root, parent = streams[on]
                title = op.get("title")
                what = f"step {step} {kind} on #{on}"
                if kind == "value":
                    if n_value >= 2:
                        continue
                    n_value += 1
                    err = expect_outcome(lambda: s.value(title=title), lambda: roots[root].calls[-1] if len(roots[root].calls) > before[root] else None, what)
                    expected_counts = [b + (1 if i == root else 0) for i, b in enumerate(before)]
                elif op.get("override"):
                    feats["override"] = True
                    box = []

                    async def exe(a, t=None):
                        box.append({"ast": a, "title": t, "out": Sentinel(("override", step))})
                        return box[-1]["out"]

                    if step % 2 == 1:
                        # the override need not be a plain function: a recording executor OBJECT that exposes its (still empty)
                        # call log through the container protocol is callable and falsy
                        plain = exe

                        class Recorder:
                            def __len__(self):
                                return len(box)

                            def __call__(self, a, t=None):
                                return plain(a, t)

                        exe = Recorder()
                        feats["override-falsy-callable"] = True

                    err = expect_outcome(lambda: _run(s.value_async(exe, title=title)), lambda: box[-1] if box else None, what)
                    expected_counts = list(before)
                    if not err and len(box) != 1:
                        err = f"{what}: override executor invoked {len(box)} times"
                    if not err:
                        err = check_call(s, root, box[0], title, what)
                else:
                    err = expect_outcome(lambda: _run(s.value_async(title=title)), lambda: roots[root].calls[-1] if len(roots[root].calls) > before[root] else None, what)
                    expected_counts = [b + (1 if i == root else 0) for i, b in enumerate(before)]
                if err:
                    return r.fail(err)
                if total_calls() != expected_counts:
                    return r.fail(f"{what}: executor invocations per dataset went {before} -> {total_calls()}, expected {expected_counts}")
                if not (kind == "value_async" and op.get("override")):
                    err = check_call(s, root, roots[root].calls[-1], title, what)
                    if err:
                        return r.fail(err)
                if parent is not None:
                    executed_parents.add(parent)
                executed_parents.add(on)
                if "Result" in ast.dump(s.query_ast)[:40]:
                    feats["terminal-exec"] = True
                continue
            if kind == "batch":
                ons = [o % len(streams) for o in op["on"]]
                title = op.get("title")
                titles = op.get("titles") or [title] * len(ons)
                if len(set(titles)) > 1:
                    feats["batch-distinct-titles"] = True
                if len(set(ons)) < len(ons):
                    feats["batch-same-stream-twice"] = True
                for d in roots:
                    d.gated = True
                started = []
                try:
                    for o, title_k in zip(ons, titles):
                        s, root, _ = streams[o]
                        nb = len(roots[root].calls)
                        coro = s.value_async(title=title_k)
                        try:
                            y = coro.send(None)
                        except StopIteration:
                            return r.fail(f"step {step}: a gated execution finished before its gate was released")
                        if len(roots[root].calls) != nb + 1:
                            return r.fail(f"step {step}: starting value_async on #{o} invoked its dataset's executor {len(roots[root].calls) - nb} times")
                        call = roots[root].calls[-1]
                        if y is not call["gate"]:
                            return r.fail(f"step {step}: coroutine is not waiting on its own executor's gate")
                        started.append((o, s, root, coro, call))
                    if total_calls() != [b + sum(1 for o in ons if streams[o][1] == i) for i, b in enumerate(before)]:
                        return r.fail(f"step {step}: batch start invoked executors {before} -> {total_calls()}")
                    if list(op["order"]) != sorted(op["order"]):
                        feats["batch-out-of-order"] = True
                    for k in op["order"]:
                        o, s, root, coro, call = started[k]
                        call["gate"].open = True
                        what = f"step {step} batch member {k} (stream #{o})"
                        err = expect_outcome(lambda: _run(coro), lambda: call, what) or check_call(s, root, call, titles[k], what)
                        if err:
                            return r.fail(err)
                    if total_calls() != [b + sum(1 for o in ons if streams[o][1] == i) for i, b in enumerate(before)]:
                        return r.fail(f"step {step}: completing the batch invoked executors again: {total_calls()}")
                finally:
                    for d in roots:
                        d.gated = False
                continue
        except Exception as e:
            import traceback

            return r.fail(f"step {step} {op} raised {type(e).__name__}: {e} {traceback.format_exc()[-300:]}")
    for k, v in feats.items():
        if v:
            r.labels.append(k)
    r.labels.append(f"datasets:{len(roots)}")
    r.nontrivial = len(roots) >= 2 and (feats["batch-out-of-order"] or feats["exec-after-rederive"])
    return r


def _run(coro):
    try:
        coro.send(None)
    except StopIteration as e:
        return e.value
    raise AssertionError("harness: coroutine is still waiting although its gate is open")


def selftest():
    g = Gate()

    async def f():
        await g
        return 5

    c = f()
    assert c.send(None) is g
    g.open = True
    assert _run(c) == 5
