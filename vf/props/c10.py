"""C10 - untyped queries pass through unchanged; refusals are explicit.

case = {"op": "Select"|"SelectMany"|"Where", "param": name, "body": expression text, "form": "string"|"ast"|"callable"}
"""
from __future__ import annotations

import ast
import itertools
from typing import Iterable  # noqa: F401

from hypothesis import strategies as st

from vf.common import srcgen
from vf.common.harness import Result
from vf.gen import untyped

ID = "C10"
RULE = (
    "Single-parameter lambdas whose body comes from the untyped expression grammar (names, attributes, calls with "
    "positional and keyword arguments incl. calls of subscripted/attribute callees, subscripts and slices, unary/binary/"
    "boolean/comparison operators, conditionals, tuples, lists, dicts with arbitrary string keys, nested lambdas, "
    "operator calls in method and function form; attribute/variable names from a pool that includes names of ast fields), "
    "supplied as source string, ast.Lambda and capture-free callable to Select/SelectMany/Where on a stream without type "
    "information. Exhaustive stratum: all expressions of depth <=1 (quick) / depth <=2 (thorough) over a reduced pool x "
    "3 operators. Non-trivial = depth >=2 and >=2 distinct node kinds. Distinct by (operator, form, lambda text)."
)
ASSUMPTIONS = [
    "A ValueError is accepted only when a designed-refusal trigger is present, decided syntactically from the statement: "
    "Where body that is not a comparison / and / or / not; an IfExp (unless both branches are constants of one type or "
    "numeric constants, which must pass); a None/Ellipsis constant; a subscript of a tuple literal (unless the index is "
    "an in-range int constant, which must pass); a subscript or attribute of an expression that contains a dict literal (unless it is directly a dict literal that defines that constant key, which must pass).",
    "Immediately-called lambdas are not generated (captured callables beta-reduce them: C05 territory); abs/len are called "
    "with exactly one positional argument (they are typed functions: C07 territory); string indices into tuple literals "
    "are not generated.",
    "Callables are rendered one per line in a synthetic module registered in linecache (C03 covers layouts).",
    "Each case may be preceded (in the same process) by 0-3 unrelated typed queries whose lambda parameters carry the names "
    "that the untyped lambda uses as free variables: process-level history must not matter.",
]
ATHERIS_RUNS = 6000  # thorough tier only: coverage-guided supplement (vf/fuzz.py)
BUDGET = {"quick": (6, 1200), "thorough": (16, 10000)}
EXHAUSTIVE_SHARDS = {"quick": 4, "thorough": 16}
EXHAUSTIVE_NOTE = "reduced pool (3 attrs, 4 constants, 33 forms): every expression of depth <=1 (quick) or <=2 (thorough), x Select/SelectMany/Where, string form"

FREE_NAMES = ["name", "value", "cut", "jets"]

_CFG = untyped.Cfg(
    const_kinds="iifssbycNE"[:8] + "NE",
    funcs=untyped.FUNCS,
    forms=["attr", "attr", "call", "mcall", "mcall", "sub", "sub", "unary", "not", "bin", "bool", "cmp", "cmp", "ifexp", "tuple",
           "list", "dict", "lambda", "const", "name", "opcall", "tuplesub", "dictsub", "slice", "pcall", "abslen"],
)


@st.composite
def _body(draw, depth, p):
    return draw(_expr(depth, [p]))


@st.composite
def _expr(draw, depth, bound):
    """untyped.expr plus the C10-specific forms"""
    if depth > 0:
        k = {0: 0, 1: 0, 2: 1, 3: 1, 4: 2, 5: 3, 6: 4, 7: 5, 8: 6, 9: 6}.get(draw(st.integers(0, 19)), 99)
        d = depth - 1
        if k == 0:  # subscript of a tuple literal: constant in range / out of range / variable / negative / slice
            n = draw(st.integers(1, 3))
            items = ", ".join(draw(_expr(d, bound)) for _ in range(n)) + ("," if n == 1 else "")
            idx = draw(st.sampled_from([str(draw(st.integers(0, n - 1))), str(n + draw(st.integers(0, 2))), draw(_expr(0, bound)), "-1", "0:1", "True"]))
            return f"({items})[{idx}]"
        if k == 1:  # dict literal lookups
            keys = draw(st.lists(st.sampled_from(_CFG.dict_keys), min_size=1, max_size=3, unique=True))
            dd = "{" + ", ".join(f"{kk!r}: {draw(_expr(d, bound))}" for kk in keys) + "}"
            which = draw(st.integers(0, 3))
            key = draw(st.sampled_from(keys)) if which <= 1 else draw(st.sampled_from(["zz", "b", "Zip"]))
            if which % 2 == 0 or not key.isidentifier() or key in ("class",):
                return f"{dd}[{key!r}]"
            return f"{dd}.{key}"
        if k == 2:  # slices
            return f"{untyped._paren(draw(_expr(d, bound)))}[{draw(_expr(0, bound))}:{draw(_expr(0, bound))}]"
        if k == 3:  # call of a subscripted / attribute / call-result callee
            callee = draw(st.sampled_from([
                f"{draw(st.sampled_from(bound))}.{draw(st.sampled_from(_CFG.attrs))}[{draw(_expr(0, bound))}]",
                f"{draw(st.sampled_from(bound))}[{draw(_expr(0, bound))}]",
                f"{draw(st.sampled_from(_CFG.funcs))}({draw(_expr(0, bound))})",
                f"{draw(st.sampled_from(bound))}.{draw(st.sampled_from(_CFG.attrs))}[{draw(st.sampled_from(['int', 'float', 'cpp_type']))}]",
            ]))
            args = [draw(_expr(d, bound)) for _ in range(draw(st.integers(0, 2)))]
            return f"{callee}({', '.join(args)})"
        if k == 4:
            return f"{draw(st.sampled_from(['abs', 'len']))}({draw(_expr(d, bound))})"
        if k == 6:  # free (unbound) names: nothing is known about them on an untyped stream
            fn = draw(st.sampled_from(FREE_NAMES))
            return draw(st.sampled_from([fn, f"{fn}.pt", f"{fn}.encode()", f"{fn}.aa", f"{fn}.split()", f"f({fn})", f"{fn}[0]"]))
        if k == 5 and draw(st.booleans()):
            # conditionals whose branch types are evident from the text, next to a dict literal with the same keys but other value types
            consts = {"i": ["1", "7"], "f": ["1.5", "0.25"], "s": ["'a'", "'x y'"], "b": ["True", "False"], "y": ["b'a'", "b''"]}
            t1, t2 = draw(st.permutations(sorted(consts)))[:2]
            key = draw(st.sampled_from(_CFG.dict_keys))
            other = draw(st.sampled_from(_CFG.dict_keys))
            mk = lambda t: draw(st.sampled_from(consts[t]))  # noqa: E731
            lookup = lambda t: draw(st.sampled_from([f"{{{key!r}: {mk(t)}}}[{key!r}]", f"{{{other!r}: {draw(_expr(0, bound))}, {key!r}: {mk(t)}}}[{key!r}]", f"({draw(_expr(0, bound))}, {mk(t)})[1]", mk(t)]))  # noqa: E731
            first = f"{{{key!r}: {mk(t1)}}}[{key!r}]"
            cond = f"({lookup(t2)} if {draw(_expr(d, bound))} else {lookup(t2)})"
            return draw(st.sampled_from([f"({first}, {cond})", f"({cond}, {first})", cond, f"[{first}, {cond}]"]))
        if k == 5:  # ifexp with constants (exact predictions)
            a, b = draw(st.sampled_from([("1", "2"), ("1.5", "2"), ("'a'", "'b'"), ("'a'", "1"), ("True", "False"), ("1", "'x'"), ("b'a'", "b'b'"),
                                            ("('a' + 'b')", "'c'"), ("'c'", "('a' + 'b')"), ("(1 + 2)", "3"), ("(1 + 2)", "1.5"), ("(True + True)", "2"),
                                            # a conditional as a branch of a conditional: its type is that of its (agreeing) branches
                                            ("('a' if § else 'b')", "'c'"), ("'c'", "('a' if § else 'b')"), ("((§ > 1) if § else (§ < 2))", "(§ == 0)"),
                                            ("{'k': ('a' if § else 'b')}['k']", "'c'"), ("(('a' if § else 'b'), 1)[0]", "'c'"), ("(1 if § else 2)", "2.5")]))
            a, b = a.replace("§", bound[-1]), b.replace("§", bound[-1])
            return f"({a} if {draw(_expr(d, bound))} else {b})"
    return draw(_UntypedAdapter(depth, bound))


def _UntypedAdapter(depth, bound):
    cfg = untyped.Cfg(const_kinds="iifssbycNE", forms=["attr", "attr", "call", "mcall", "mcall", "sub", "unary", "not", "bin", "bool", "cmp", "cmp",
                                                      "ifexp", "tuple", "list", "dict", "lambda", "const", "name", "opcall"])
    return untyped.expr(depth, bound, cfg)


@st.composite
def _case(draw, maxdepth):
    op = draw(st.sampled_from(["Select", "Select", "SelectMany", "Where", "Where"]))
    p = draw(st.sampled_from(untyped.PLAIN_VARS + untyped.AST_NAMES[:10]))
    depth = draw(st.integers(1, maxdepth))
    body = draw(_expr(depth, [p]))
    if op == "Where" and draw(st.integers(0, 9)) < 7:
        k = draw(st.integers(0, 3))
        if k == 0:
            body = f"{body} > {draw(_expr(1, [p]))}"
        elif k == 1:
            body = f"({body}) and ({draw(_expr(1, [p]))} != 0)"
        elif k == 2:
            body = f"not ({body} < 1)"
        else:
            body = f"({draw(_expr(1, [p]))} == 1) or ({body} in {p}.x)"
    form = draw(st.sampled_from(["string", "string", "ast", "callable", "callable"]))
    # history: typed queries built earlier in the same process, binding the free names as lambda parameters
    prelude = draw(st.lists(st.tuples(st.sampled_from(FREE_NAMES + [p]), st.sampled_from(["str", "dict", "class", "same-text"])).map(list), max_size=3))
    # the module that holds the callable may have a variable spelled like the lambda's parameter (a coincidence: the lambda binds the name)
    shadow = form == "callable" and draw(st.integers(0, 2)) == 0
    return {"op": op, "param": p, "body": body, "form": form, "prelude": prelude, "shadow_global": shadow}


def strategy(tier):
    return _case(3 if tier == "quick" else 5)


# ------------------------------------------------------------------------------------------------
# bounded exhaustive stratum

_ATOMS = ["e", "e.pt", "e.id", "e.value", "1", "1.5", "'a'", "True"]


def _level(prev):
    out = []
    for a in prev:
        out += [f"{_p(a)}.pt", f"f({a})", f"-{_p(a)}", f"not {a}", f"[{a}]", f"({a},)", f"{{'k': {a}}}", f"{{'a b': {a}}}",
                f"(lambda x: {a})", f"{_p(a)}.m()", f"{_p(a)}.Select(lambda j: j)", f"Count({a})", f"abs({a})", f"{_p(a)}[0]", f"({a},)[0]", f"({a},)[1]",
                f"{{'k': {a}}}['k']", f"{{'k': {a}}}.z", f"{{'k': 1, 'j': 2, 'm': {a}}}.m", f"{{'k': 1, 'j': {a}, 'm': 3}}['m']", f"{_p(a)}.id", f"{_p(a)}.value"]
    return out


def _level2(prev, atoms):
    out = []
    for a, b in itertools.product(prev, atoms):
        out += [f"({a} + {b})", f"({a} and {b})", f"({a} < {b})", f"f({a}, k={b})", f"({a}, {b})", f"{_p(a)}[{b}]", f"({b} if {a} else {a})",
                f"({a} if {b} else 1)", f"{_p(a)}.m({b}, name={b})", f"({a}, {b})[1]", f"({a}, {b})[{b}]"]
    return out


def _p(s):
    """parenthesise unless s is a primary that can take .attr / [i] / (args) directly"""
    n = ast.parse(s, mode="eval").body
    if isinstance(n, (ast.Name, ast.Attribute, ast.Call, ast.Subscript, ast.List, ast.Dict)):
        return s
    if isinstance(n, ast.Constant) and isinstance(n.value, (str, bytes)):
        return s
    if s.startswith("(") and s.endswith(")") and isinstance(n, ast.Tuple):
        return s
    return f"({s})"


def exhaustive(tier):
    d0 = list(_ATOMS)
    d1 = _level(d0) + _level2(d0, d0)
    bodies = d0 + d1
    if tier == "thorough":
        bodies = bodies + _level(d1) + _level2(d1, d0[:5])
    for body in bodies:
        for op in ("Select", "SelectMany", "Where"):
            yield {"op": op, "param": "e", "body": body, "form": "string"}


# ------------------------------------------------------------------------------------------------
# designed-refusal classifier (written from the statement)


class _Typed:
    def pt(self, scale: float = 1.0, name: str = "x") -> float: ...

    def jets(self, name: str = "j") -> "Iterable[_Typed]": ...

    def encode(self, enc: str = "utf-8") -> str: ...


def _contains(node, kinds):
    return any(isinstance(n, kinds) for n in ast.walk(node))


def triggers(op: str, body: ast.expr):
    """(set of designed refusals that may fire, must_pass flag when none may)"""
    t = set()
    if op == "Where" and not _is_boolean_combination(body):
        t.add("where-non-boolean")
    for n in ast.walk(body):
        if isinstance(n, ast.IfExp):
            ta, tb = _known_type(n.body), _known_type(n.orelse)
            if ta is not None and tb is not None and (ta is tb or ({ta, tb} <= {int, float, ANY})):
                continue  # both branches have a type that is evident from the text (or evidently none at all), and they agree: must pass
            t.add("ifexp-types")
        if isinstance(n, ast.Constant) and (n.value is None or n.value is Ellipsis):
            t.add("non-transportable-constant")
        if isinstance(n, ast.Subscript) and _contains(n.value, ast.Tuple):
            if isinstance(n.value, ast.Tuple) and isinstance(n.slice, ast.Constant) and isinstance(n.slice.value, int) \
                    and 0 <= n.slice.value < len(n.value.elts):
                continue
            t.add("tuple-index")
        if isinstance(n, (ast.Subscript, ast.Attribute)) and _contains(n.value, ast.Dict):
            if isinstance(n.value, ast.Dict):
                keys = [k.value for k in n.value.keys if isinstance(k, ast.Constant)]
                key = n.attr if isinstance(n, ast.Attribute) else (n.slice.value if isinstance(n.slice, ast.Constant) else None)
                if isinstance(key, str) and key in keys:
                    continue  # a key the literal defines: must pass
            t.add("dict-lookup")
    return t


def _known_type(n):
    """the type of an expression when it is evident from the text alone (else None): a constant, a comparison or and/or
    (bool), a defined constant key of a dict literal, an in-range constant index of a tuple literal, a conditional whose
    branches have evident, agreeing types"""
    if isinstance(n, ast.Constant):
        return type(n.value) if n.value is not None and n.value is not Ellipsis else None
    if isinstance(n, (ast.Compare, ast.BoolOp)) or (isinstance(n, ast.UnaryOp) and isinstance(n.op, ast.Not)):
        return bool
    if isinstance(n, ast.BinOp):
        ta, tb = _known_type(n.left), _known_type(n.right)
        if ta is str and tb is str and isinstance(n.op, ast.Add):
            return str  # two strings joined
        if ta is not None and tb is not None and {ta, tb} <= {int, float, bool}:
            return float if (float in (ta, tb) or isinstance(n.op, ast.Div)) else int
        return None
    if _evidently_untyped(n):
        return ANY  # nothing can be known about it on a stream without type information: compatible with itself and with numbers
    if isinstance(n, (ast.Subscript, ast.Attribute)) and isinstance(n.value, ast.Dict):
        key = n.attr if isinstance(n, ast.Attribute) else (n.slice.value if isinstance(n.slice, ast.Constant) else None)
        import keyword

        names = [k.value if isinstance(k, ast.Constant) else None for k in n.value.keys]
        # only a dictionary whose keys are distinct identifiers in normal form (python normalizes identifiers: NFKC) can be followed field by field (other keys are legal, but then
        # nothing is known about a lookup)
        import unicodedata

        followable = all(isinstance(x, str) and x.isidentifier() and not keyword.iskeyword(x) and unicodedata.normalize("NFKC", x) == x for x in names) \
            and len(set(names)) == len(names)
        if isinstance(key, str) and followable:
            for k, v in zip(n.value.keys, n.value.values):
                if isinstance(k, ast.Constant) and k.value == key:
                    return _known_type(v)
        return None
    if isinstance(n, ast.Subscript) and isinstance(n.value, ast.Tuple) and isinstance(n.slice, ast.Constant) \
            and type(n.slice.value) is int and 0 <= n.slice.value < len(n.value.elts):
        return _known_type(n.value.elts[n.slice.value])
    if isinstance(n, ast.IfExp):
        ta, tb = _known_type(n.body), _known_type(n.orelse)
        if ta is not None and tb is not None:
            if ta is tb:
                return ta
            if {ta, tb} <= {int, float, ANY}:
                return float
    return None


ANY = "no-type-information"


def _evidently_untyped(n):
    """a variable, an attribute chain over one, a method call on one: on an untyped stream nothing is known about its type"""
    if isinstance(n, ast.Name):
        return True
    if isinstance(n, ast.Attribute):
        return _evidently_untyped(n.value)
    if isinstance(n, ast.Call) and isinstance(n.func, ast.Attribute) and not n.keywords:
        return _evidently_untyped(n.func.value) and n.func.attr not in ("Select", "Where", "SelectMany", "First", "Count")
    return False


def _is_boolean_combination(body):
    if isinstance(body, (ast.Compare, ast.BoolOp)):
        return True
    if isinstance(body, ast.UnaryOp) and isinstance(body.op, ast.Not):
        return True  # `not x` is a truth value whatever x is
    return False


def _depth(n):
    return 1 + max([_depth(c) for c in ast.iter_child_nodes(n) if isinstance(c, ast.expr)] or [0])


def check(case) -> Result:
    from func_adl import EventDataset

    class DS(EventDataset):
        async def execute_result_async(self, a, title=None):
            return a

    op, p, body, form = case["op"], case["param"], case["body"], case["form"]
    text = f"lambda {p}: {body}"
    r = Result(sample={"op": op, "form": form, "lambda": text}, key=f"{op}|{form}|{text}")
    pristine = ast.parse(text, mode="eval").body
    trig = triggers(op, pristine.body)
    kinds = {type(n).__name__ for n in ast.walk(pristine.body) if isinstance(n, ast.expr)}
    r.nontrivial = _depth(pristine.body) >= 2 and len(kinds) >= 2
    r.labels.append("form:" + form)
    r.labels.append("op:" + op)
    for t in sorted(trig):
        r.labels.append("trigger:" + t)

    # earlier, unrelated, *typed* queries in the same process must not influence an untyped one
    for pname, kind in case.get("prelude", []):
        r.labels.append("history:typed-query-before")
        if kind == "same-text":
            # the very same lambda text was used before on a typed dataset (one analysis, several samples)
            try:
                getattr(DS(_Typed), op)(text)
            except Exception:
                pass
            continue
        try:
            if kind == "str":
                base = DS().Select("lambda e: 'jet'")
                base.Select(f"lambda {pname}: {pname}.upper()"), base.SelectMany(f"lambda {pname}: {pname}.upper()"), base.Where(f"lambda {pname}: {pname} == 'a'")
            elif kind == "dict":
                base = DS().Select("lambda e: {'aa': e.x, 'bb': 1}")
                base.Select(f"lambda {pname}: {pname}.aa"), base.SelectMany(f"lambda {pname}: {pname}.aa"), base.Where(f"lambda {pname}: {pname}.bb > 0")
            else:
                base = DS(_Typed)
                base.Select(f"lambda {pname}: {pname}.pt()"), base.SelectMany(f"lambda {pname}: {pname}.jets()"), base.Where(f"lambda {pname}: {pname}.pt() > 0")
        except Exception as e:
            raise AssertionError(f"harness: prelude query failed: {type(e).__name__}: {e}")

    ds = DS()
    try:
        if form == "string":
            s = getattr(ds, op)(text)
        elif form == "ast":
            s = getattr(ds, op)(ast.parse(text, mode="eval").body)
        else:
            src = f"def build(ds):\n    return ds.{op}({text})\n"
            if case.get("shadow_global"):
                r.labels.append("module-global-spelled-like-the-parameter")
                src = f"{p} = 2.5\n" + src
            with srcgen.module(src) as mod:
                s = mod.build(ds)
    except ValueError as e:
        r.labels.append("outcome:ValueError")
        if not trig:
            return r.fail(f"ValueError without a designed-refusal trigger: {op}({text!r}) [{form}]: {e}")
        return r
    except Exception as e:
        return r.fail(f"internal error {type(e).__name__}: {e} for {op}({text!r}) [{form}]")
    r.labels.append("outcome:emitted")
    q = s.query_ast
    if not (isinstance(q, ast.Call) and isinstance(q.func, ast.Name) and q.func.id == op and len(q.args) == 2 and not q.keywords):
        return r.fail(f"emitted node is not {op}(source, lambda): {ast.dump(q)[:200]}")
    lam = q.args[1]
    if ast.dump(lam) != ast.dump(pristine):
        try:
            shown = ast.unparse(ast.fix_missing_locations(lam))
        except Exception:
            shown = ast.dump(lam)[:300]
        return r.fail(f"{op} [{form}] changed the lambda: {text!r} was emitted as {shown!r}")
    if ast.dump(q.args[0]) != ast.dump(ds.query_ast):
        return r.fail("source of the emitted operator is not the parent stream's query")
    return r


def selftest():
    def tr(op, src):
        return triggers(op, ast.parse(src, mode="eval").body)

    assert tr("Select", "e.a + 1") == set()
    assert tr("Where", "e.a") == {"where-non-boolean"}
    assert tr("Where", "not (e.a > 1 and e.b)") == set()
    assert tr("Select", "1 if e else 2.5") == set() and tr("Select", "'a' if e else 1") == {"ifexp-types"}
    assert tr("Select", "(e, 1)[1]") == set() and tr("Select", "(e, 1)[2]") == {"tuple-index"} and tr("Select", "(e, 1)[e]") == {"tuple-index"}
    assert tr("Select", "{'a': 1, 'b': 2}.b") == set() and tr("Select", "{'a': 1}['a']") == set()
    assert tr("Select", "{'a': 1}.b") == {"dict-lookup"} and tr("Select", "f(None)") == {"non-transportable-constant"}
    assert len(list(exhaustive("quick"))) > 2000
