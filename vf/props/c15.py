"""C15 - MetaData extraction and empty-metadata removal are exact.

case = {"src": query expression text}   (wrappers are MetaData(<source>, {<dict literal>}); every non-empty dict
carries a unique 'id')
"""
from __future__ import annotations

import ast
import copy

from hypothesis import strategies as st

from vf.common.harness import Result

ID = "C15"
RULE = (
    "Query ASTs from a grammar over ds/Select/Where/SelectMany/First/Count/method calls/tuples/dicts/arithmetic with "
    "0-8 MetaData(src, dict) wrappers placed on the source chain, adjacent, nested in each other's source, inside "
    "lambda bodies, in default values of lambda parameters (positional and keyword-only), in operator/function arguments incl. keyword, starred and callee positions, conditionals, subscripts, slices and unary/boolean operands, next to look-alike method calls obj.MetaData(x, {}); dict empty or carrying a unique id (1-3 keys, str/int/float/"
    "bool/list values). Non-trivial = >=2 wrappers with >=1 empty and >=1 inside a lambda. Distinct by source text."
)
ASSUMPTIONS = [
    "A 'MetaData wrapper' is a function-form call MetaData(source, dict-literal) with exactly two arguments.",
    "extract_metadata is not required to leave its input unmodified (only remove_empty_metadata documents that).",
]
BUDGET = {"quick": (6, 700), "thorough": (16, 12000)}


@st.composite
def _md_dict(draw, counter):
    k = draw(st.integers(0, 5))
    if k <= 1:
        return "{}"
    counter[0] += 1
    items = [f"'id': {counter[0]}"]
    if k >= 4:
        items.append(draw(st.sampled_from(["'k': 'v'", "'files': ['a.h', 'b.h']", "'x': 1.5", "'flag': True", "'metadata_type': 'add_method'"])))
    if k == 5:
        items.append(draw(st.sampled_from(["'name': 'it\\'s'", "'n': -3", "'deep': {'a': [1, (2, 3)]}"])))
    return "{" + ", ".join(items) + "}"


@st.composite
def _wrap(draw, inner_fn, counter, depth, p=3):
    """maybe wrap the expression produced by inner_fn() in 0..2 MetaData wrappers"""
    e = inner_fn()
    n = 0
    while n < 3 and draw(st.integers(0, 9)) < p:
        e = f"MetaData({e}, {draw(_md_dict(counter))})"
        n += 1
    return e


@st.composite
def _seq(draw, depth, vars_, counter, root):
    """a sequence-valued expression"""
    def base():
        if root:
            return "EventDataset()" if draw(st.booleans()) else "ds"
        v = draw(st.sampled_from(vars_))
        return draw(st.sampled_from([f"{v}.jets", f"{v}.Jets('a')", f"{v}.trks()"]))

    def build():
        if depth <= 0 or draw(st.integers(0, 9)) < 2:
            return base()
        src = draw(_seq(depth - 1, vars_, counter, root))
        v = draw(st.sampled_from(["e", "j", "t"]))
        k = draw(st.integers(0, 4))
        if k == 0:
            return f"Select({src}, lambda {v}: {draw(_val(depth - 1, vars_ + [v], counter))})"
        if k == 1:
            return f"Where({src}, lambda {v}: {draw(_val(depth - 1, vars_ + [v], counter))} > 1)"
        if k == 2:
            return f"SelectMany({src}, lambda {v}: {draw(_seq(depth - 1, vars_ + [v], counter, False))})"
        if k == 3:
            return f"({src}).Select(lambda {v}: {draw(_val(depth - 1, vars_ + [v], counter))})"
        if draw(st.integers(0, 4)) == 0:
            # a lambda with a second, defaulted parameter (positional or keyword-only): the default value is reached through the
            # lambda's `arguments` node, not through an expression field
            w = draw(st.sampled_from(["w", "d"]))
            star = draw(st.sampled_from(["", "*, "]))
            dflt = draw(_val(depth - 1, vars_, counter)) if draw(st.booleans()) else draw(_seq(depth - 1, vars_, counter, not vars_))
            return f"Select({src}, lambda {v}, {star}{w}={dflt}: ({draw(_val(depth - 1, vars_ + [v], counter))}, {w}))"
        return f"Where({src}, lambda {v}: {draw(_val(depth - 1, vars_ + [v], counter))} > 0 and {v}.ok)"

    return draw(_wrap(build, counter, depth))


@st.composite
def _val(draw, depth, vars_, counter):
    def build():
        v = draw(st.sampled_from(vars_)) if vars_ else "q"
        if depth <= 0 or draw(st.integers(0, 9)) < 2:
            return draw(st.sampled_from([f"{v}.pt", f"{v}.eta()", "1", f"{v}"]))
        k = draw(st.integers(0, 10))
        if k == 7:
            return f"({draw(_val(depth - 1, vars_, counter))} if {draw(_val(depth - 1, vars_, counter))} > 0 else {draw(_val(depth - 1, vars_, counter))})"
        if k == 8:
            return draw(st.sampled_from(["{A}[{B}]", "{A}[{B}:]", "-{A} < {B}", "func(*({A}), **({B}))", "pick({A})({B})", "(not {A}) or {B}"])) \
                .replace("{A}", draw(_val(depth - 1, vars_, counter))).replace("{B}", draw(_val(depth - 1, vars_, counter)))
        if k == 9:
            w = draw(st.sampled_from(["w", "d"]))
            return f"(lambda {w}, {draw(st.sampled_from(['', '*, ']))}z={draw(_val(depth - 1, vars_, counter))}: {w} + z)({draw(_val(depth - 1, vars_, counter))})"
        if k == 10:
            # a look-alike that is not a wrapper: the METHOD MetaData of some object (must stay as it is)
            return f"obj.MetaData({draw(_val(depth - 1, vars_, counter))}, {{}})"
        if k == 0:
            return f"Count({draw(_seq(depth - 1, vars_, counter, False))})" if vars_ else "2"
        if k == 1:
            return f"First({draw(_seq(depth - 1, vars_, counter, False))}).pt" if vars_ else "3"
        if k == 2:
            return f"({draw(_val(depth - 1, vars_, counter))}, {draw(_val(depth - 1, vars_, counter))})"
        if k == 3 and draw(st.integers(0, 2)) == 0:
            # a ** spread in front of / between named entries (the key list of the Dict node then holds a None)
            return f"{{**({draw(_val(depth - 1, vars_, counter))}), 'a': {draw(_val(depth - 1, vars_, counter))}, **other, 'b': {draw(_val(depth - 1, vars_, counter))}}}"
        if k == 3:
            return f"{{'a': {draw(_val(depth - 1, vars_, counter))}, 'b': {draw(_val(depth - 1, vars_, counter))}}}"
        if k == 4:
            return f"({draw(_val(depth - 1, vars_, counter))} + {draw(_val(depth - 1, vars_, counter))})"
        if k == 5:
            return f"func({draw(_val(depth - 1, vars_, counter))}, key={draw(_val(depth - 1, vars_, counter))})"
        return f"{draw(_seq(depth - 1, vars_, counter, False))}" if vars_ else "4"

    return draw(_wrap(build, counter, depth, p=2))


@st.composite
def _case(draw, maxdepth):
    counter = [0]
    src = draw(_seq(draw(st.integers(1, maxdepth)), [], counter, True))
    k = draw(st.integers(0, 3))
    if k == 0:
        src = f"ResultTTree({src}, ['c'], 't', 'f')"
    elif k == 1:
        src = f"MetaData({src}, {draw(_md_dict(counter))})"
    return {"src": src}


def strategy(tier):
    return _case(4 if tier == "quick" else 5)


# ------------------------------------------------------------------------------------------------
# reference model


def _is_wrapper(n):
    return isinstance(n, ast.Call) and isinstance(n.func, ast.Name) and n.func.id == "MetaData" and len(n.args) == 2 and not n.keywords


def ref_extract(tree):
    """pure: returns (new tree, list of (dict, path-of-wrapper)) on a deep copy"""
    t = copy.deepcopy(tree)

    class X(ast.NodeTransformer):
        def visit_Call(self, n):
            if _is_wrapper(n):
                return self.visit(n.args[0])
            return self.generic_visit(n)

    return X().visit(t)


def ref_remove_empty(tree):
    t = copy.deepcopy(tree)

    class X(ast.NodeTransformer):
        def visit_Call(self, n):
            self.generic_visit(n)
            if _is_wrapper(n) and isinstance(n.args[1], ast.Dict) and len(n.args[1].keys) == 0:
                return n.args[0]
            return n

    return X().visit(t)


def wrappers(tree):
    return [n for n in ast.walk(tree) if _is_wrapper(n)]


def _order_constraints(tree):
    """pairs (outer dict, inner dict) where inner is inside outer's source"""
    pairs = []
    for w in wrappers(tree):
        d = ast.literal_eval(w.args[1])
        for inner in wrappers(w.args[0]):
            pairs.append((d, ast.literal_eval(inner.args[1])))
    return pairs


def check(case) -> Result:
    from func_adl.ast.meta_data import extract_metadata, remove_empty_metadata

    r = Result(sample=case["src"], key=case["src"])
    tree = ast.parse(case["src"], mode="eval").body
    ws = wrappers(tree)
    dicts = [ast.literal_eval(w.args[1]) for w in ws]
    n_empty = sum(1 for d in dicts if not d)
    in_lambda = sum(len(wrappers(lam.body)) for lam in ast.walk(tree) if isinstance(lam, ast.Lambda))
    nested = bool(_order_constraints(tree))
    r.labels.append(f"wrappers:{min(len(ws), 6)}")
    if n_empty:
        r.labels.append("has-empty")
    if in_lambda:
        r.labels.append("in-lambda")
    if nested:
        r.labels.append("nested-in-source")
    r.nontrivial = len(ws) >= 2 and n_empty >= 1 and in_lambda >= 1

    # --- remove_empty_metadata --------------------------------------------------------------
    inp = copy.deepcopy(tree)
    before = ast.dump(inp, include_attributes=True)
    try:
        cleaned = remove_empty_metadata(inp)
    except Exception as e:
        return r.fail(f"remove_empty_metadata raised {type(e).__name__}: {e} on {case['src']}")
    want = ref_remove_empty(tree)
    if ast.dump(cleaned) != ast.dump(want):
        return r.fail(f"remove_empty_metadata: got {_u(cleaned)}; want {_u(want)}")
    if ast.dump(inp, include_attributes=True) != before:
        return r.fail(f"remove_empty_metadata modified the AST it was given: {case['src']} became {_u(inp)}")

    # --- extract_metadata ---------------------------------------------------------------------
    inp2 = copy.deepcopy(tree)
    try:
        new, md = extract_metadata(inp2)
    except Exception as e:
        return r.fail(f"extract_metadata raised {type(e).__name__}: {e} on {case['src']}")
    want2 = ref_extract(tree)
    if ast.dump(new) != ast.dump(want2):
        return r.fail(f"extract_metadata: got {_u(new)}; want {_u(want2)}")
    if wrappers(new):
        return r.fail("extract_metadata left a wrapper")
    if sorted(map(repr, md)) != sorted(map(repr, dicts)):
        return r.fail(f"extract_metadata list {md} is not the multiset of all dictionaries {dicts}")
    for outer, inner in _order_constraints(tree):
        if outer and inner and md.index(outer) > md.index(inner):
            return r.fail(f"outer wrapper {outer} listed after inner {inner}: {md}")
    # empties are indistinguishable from each other: check order using positions of first/last occurrence conservatively
    return r


def _u(t):
    try:
        return ast.unparse(ast.fix_missing_locations(copy.deepcopy(t)))
    except Exception:
        return ast.dump(t)[:300]


def selftest():
    t = ast.parse("Select(MetaData(MetaData(ds, {'id': 1}), {}), lambda e: MetaData(e.jets, {'id': 2}))", mode="eval").body
    assert _u(ref_extract(t)) == "Select(ds, lambda e: e.jets)"
    assert _u(ref_remove_empty(t)) == "Select(MetaData(ds, {'id': 1}), lambda e: MetaData(e.jets, {'id': 2}))"
    assert _order_constraints(t) == [({}, {"id": 1})]
