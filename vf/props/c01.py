"""C01 - a fluent query means what the user's python chain computes.

case = {"typed": bool, "stages": [{"id", "parent", "op", "param", "body", "form"} | {"id","parent","op":"MetaData"|"QMetaData"|"terminal",...}],
        "outputs": [stream ids], "data": dataset json}
The module text is rendered from the case; the SAME text is executed twice: with a recording func_adl dataset and with a
python sequence of the same events.
"""
import ast
import copy

from hypothesis import assume, strategies as st

from vf.common import srcgen
from vf.common.harness import Result
from vf.gen import typed
from vf.sem import pyeval, typed_model

ID = "C01"
RULE = (
    "Whole programs: a generated module builds a forest of streams (chains of 1-6 Select/Where/SelectMany stages in any "
    "order, branching from shared parents, interleaved MetaData/QMetaData, optional result terminal). Each stage's lambda "
    "comes from a typed grammar over a typed event model whose methods have defaulted parameters with real meaning "
    "(method calls with omitted defaults / keywords / re-ordered keywords, arithmetic, comparisons, conditionals, tuples, "
    "dicts, dataclass / NamedTuple constructors, nested Select/Where/SelectMany/First/Count, single-for comprehensions) "
    "and is supplied as a python callable (with captured module constants and one-line helpers), as a source string or as "
    "an ast.Lambda; typed and untyped datasets; 0-3 events incl. empty collections. Non-trivial = >=2 stages, a non-empty "
    "result and at least one of {capture/helper, sugar, typed default, nested operator, string/AST form, terminal, branch}. "
    "Distinct by module text + data."
)
ASSUMPTIONS = [
    "'What python computes' = the same module text executed with a python sequence class (strings eval'd in the module "
    "namespace with an eager LINQ prelude, ASTs compiled); 'ordinary LINQ/list semantics' for the emitted AST = CPython + the "
    "deferred LINQ prelude; compared exactly and type-strictly. Nothing is required when python itself raises.",
    "A stage that func_adl refuses with ValueError at build time (e.g. a filter it cannot type as bool) is counted as refused, "
    "not as a violation (refusals are C08/C10's subject).",
    "Backend passes are applied in the order real backends use (extract_metadata, method->function form, aggregate shortcuts, "
    "simplification) cumulatively and each alone.",
    "LINQ has no comprehension syntax: a ListComp/GeneratorExp node in the AST the executor receives is a violation (all three "
    "operators lower single-for comprehensions; only those are generated). Record constructors left in the query fail as unbound names.",
]
BUDGET = {"quick": (8, 600), "thorough": (16, 3000)}

PROLOGUE = '''
import ast as _ast
from dataclasses import dataclass
from typing import NamedTuple
K1 = 3
K2 = 0.5
# module globals spelled like lambda parameters / comprehension variables of the queries (always shadowed there)
e = 90
j = 91
t = 92
def hscale(a): return a * 2
def hadd(a, b=1):
    return a + b
hsecond = lambda a, b: b - a
def hsub(a, b):
    return a - b * 2
@dataclass
class R1:
    f_a: object
@dataclass
class R2:
    f_a: object
    f_b: object
@dataclass
class R3:
    f_a: object
    f_b: object
    f_c: object
class N1(NamedTuple):
    f_a: object
class N2(NamedTuple):
    f_a: object
    f_b: object
class N3(NamedTuple):
    f_a: object
    f_b: object
    f_c: object
class _Omitted:
    "default of the optional record fields: a field the call does not bind is not part of the lowered dictionary"
OMITTED = _Omitted()
@dataclass
class Q3:
    f_a: object
    f_b: object = OMITTED
    f_c: object = OMITTED
class QN3(NamedTuple):
    f_a: object
    f_b: object = OMITTED
    f_c: object = OMITTED
def _parse(text):
    return _ast.parse(text).body[0].value
'''


@st.composite
def _case(draw, maxstages, maxdepth):
    is_typed = draw(st.booleans())
    naming = draw(st.sampled_from(["distinct", "same", "reuse", "reuse", "argn", "argmix"]))
    streams = [{"id": 0, "type": typed.EVT}]
    stages = []
    nst = draw(st.integers(1, maxstages))
    for i in range(nst):
        parent = draw(st.sampled_from(streams[-3:] + streams[:1]))
        et = parent["type"]
        k = draw(st.integers(0, 13))
        parent_is_where = any(s_["id"] == parent["id"] and s_["op"] == "Where" for s_ in stages)
        if parent_is_where and draw(st.integers(0, 9)) < 4:
            k = 6  # a filter directly on a filtered stream (the simplifier fuses the two)
        sid = len(streams)
        if k == 10:
            stages.append({"id": sid, "parent": parent["id"], "op": "MetaData", "d": draw(st.sampled_from(["{}", "{'m': 1}", "{'files': ['a.h'], 'n': 2}"]))})
            streams.append({"id": sid, "type": et})
            continue
        if k == 11:
            stages.append({"id": sid, "parent": parent["id"], "op": "QMetaData", "d": draw(st.sampled_from(["{'q': 1}", "{'q': 2, 'r': 'x'}"]))})
            streams.append({"id": sid, "type": et})
            continue
        form = draw(st.sampled_from(["callable", "callable", "callable", "string", "ast"]))
        cfg = typed.Cfg(naming=naming, members=typed.MEMBERS_METHODS, method_form=1.0 if form == "callable" else draw(st.sampled_from([0.0, 0.5, 1.0])),
                        called_lambdas=False, dict_attr=False, comprehension=draw(st.booleans()), count_fn=True, first_on_seq=False,
                        captures=form == "callable", helpers=form == "callable" and draw(st.booleans()), record_ctor=form == "callable",
                        ifexp=draw(st.booleans()))
        cx = typed.Ctx(draw, cfg)
        cx.n = sid * 10
        p = cx.fresh([])
        env = [(p, et)]
        depth = draw(st.integers(1, maxdepth))
        if k <= 5:
            t = typed.any_type(cx, env, 2)
            body = typed.gen(cx, env, t, depth)
            sp0 = typed.seq_paths(cx, env)
            if sp0 and draw(st.integers(0, 7)) == 0:
                # the stage's value is a member sequence itself (Select must keep it nested, not flatten it)
                se, t = draw(st.sampled_from(sp0))
                body = typed._fill(cx, se)
            osp = [(e_, t_) for e_, t_ in sp0 if t_[1][0] == "O"]
            if osp and draw(st.integers(0, 9)) == 0:
                # a method called DIRECTLY on First() of a member sequence, its arguments (partly) given by keyword
                se, st_ = draw(st.sampled_from(osp))
                kwm = [(m, mt) for m, mt in cfg.members[st_[1][1]] if "=" in m and mt in (typed.I, typed.F)]
                if kwm:
                    m, t = draw(st.sampled_from(kwm))
                    first = f"{typed._fill(cx, se)}.First()" if cfg.method_form >= 0.5 else f"First({typed._fill(cx, se)})"
                    body = first + typed._fill(cx, m)
            if cfg.helpers and t in (typed.I, typed.F) and draw(st.integers(0, 2)) == 0:
                # a two-argument, non-commutative helper called positionally at the root of the body
                other = typed.gen(cx, env, t, 0)
                body = draw(st.sampled_from([f"hsub({body}, {other})", f"hsub({body}, {other})", f"hsub(b={other}, a={body})", f"hadd(b={other}, a={body})", f"hadd({body}, b={other})",
                                             f"hadd(b={other}, a=hsub(b={typed.gen(cx, env, t, 0)}, a={body}))", f"hsub(b=hadd(b={other}, a={body}), a={typed.gen(cx, env, t, 0)})"]))
            stages.append({"id": sid, "parent": parent["id"], "op": "Select", "param": p, "body": body, "form": form})
            streams.append({"id": sid, "type": t})
        elif k <= 7:
            sugar = draw(st.integers(0, 9))
            sp = typed.seq_paths(cx, env)
            if parent_is_where and draw(st.integers(0, 9)) < 6:
                # a filter directly on a filtered stream: one of the two is a disjunction (filter fusion must keep it together)
                def cmp_():
                    t = draw(st.sampled_from([typed.I, typed.F]))
                    return f"{typed.gen(cx, env, t, 1)} {draw(st.sampled_from(['>', '<', '>=', '!=']))} {typed.gen(cx, env, t, 0)}"

                body = f"{cmp_()} or {cmp_()}"
            elif sugar <= 2 and sp:
                # a filter that needs the sugar pass: a comprehension counted / measured
                se, sty = draw(st.sampled_from(sp))
                v = cx.fresh(env)
                e2 = typed.bind(env, v, sty[1])
                comp = typed.comprehension(cx, e2, v, typed._fill(cx, se), typed.gen(cx, e2, draw(st.sampled_from([typed.I, typed.F])), 0), 1)
                body = f"{draw(st.sampled_from(['Count', 'len']))}({comp}) {draw(st.sampled_from(['>', '>=', '!=']))} {draw(st.integers(0, 2))}"
            elif sugar == 3 and form == "callable":
                # ... or a record constructor whose field is compared
                t = ("D", (("f_a", typed.I), ("f_b", typed.F)))
                body = f"{typed.gen(cx, env, t, 1)}.f_b {draw(st.sampled_from(['>', '<', '>=']))} {typed.gen(cx, env, typed.F, 0)}"
            elif is_typed:
                body = typed.filter_body(cx, env, depth)
            else:  # without type information only comparisons / boolean combinations are accepted as filters
                t = draw(st.sampled_from([typed.I, typed.F]))
                body = f"{typed.gen(cx, env, t, depth)} {draw(st.sampled_from(['>', '<', '>=', '!=']))} {typed.gen(cx, env, t, 0)}"
            stages.append({"id": sid, "parent": parent["id"], "op": "Where", "param": p, "body": body, "form": form})
            streams.append({"id": sid, "type": et})
        else:
            sp = typed.seq_paths(cx, env)
            if not sp:
                t = typed.any_type(cx, env, 1)
                stages.append({"id": sid, "parent": parent["id"], "op": "Select", "param": p, "body": typed.gen(cx, env, t, depth), "form": form})
                streams.append({"id": sid, "type": t})
                continue
            it = draw(st.sampled_from(sorted({t[1] for _, t in sp}, key=repr)))
            body = typed._seq(cx, env, it, depth)
            stages.append({"id": sid, "parent": parent["id"], "op": "SelectMany", "param": p, "body": body, "form": form})
            streams.append({"id": sid, "type": it})
    import re

    assume(not any(re.search(r"\bds\b", st_.get("body", "")) for st_ in stages))  # the root dataset is not nameable inside a lambda
    outputs = [len(streams) - 1]
    if len(streams) > 2 and draw(st.booleans()):
        outputs.append(draw(st.integers(1, len(streams) - 2)))
    term = draw(st.sampled_from([None, None, "AsAwkwardArray(['c'])", "AsPandasDF('c')", "AsROOTTTree('f.root', 'tree', ['c1', 'c2'])", "AsParquetFiles('f.pq', 'c')"]))
    return {"typed": is_typed, "stages": stages, "outputs": outputs, "terminal": term, "data": draw(typed.dataset()), "naming": naming}


def strategy(tier):
    return _case(4, 2) if tier == "quick" else _case(6, 3)


def module_text(case):
    lines = [PROLOGUE, "def build(ds):", "    s0 = ds"]
    for st_ in case["stages"]:
        src = f"s{st_['parent']}"
        if st_["op"] in ("MetaData", "QMetaData"):
            lines.append(f"    s{st_['id']} = {src}.{st_['op']}({st_['d']})")
            continue
        lam = f"lambda {st_['param']}: {st_['body']}"
        if st_["form"] == "callable":
            arg = lam
        elif st_["form"] == "string":
            arg = repr(lam)
        else:
            arg = f"_parse({lam!r})"
        lines.append(f"    s{st_['id']} = {src}.{st_['op']}({arg})")
    outs = ", ".join(f"'s{o}': s{o}" for o in case["outputs"])
    if case["terminal"]:
        outs += f", 'term': s{case['outputs'][0]}.{case['terminal']}"
    lines.append(f"    return {{{outs}}}")
    return "\n".join(lines) + "\n"


# ------------------------------------------------------------------------------------------------
# python-direct sequence ("what the same chain computes when python runs it directly on in-memory sequences")


def _eager_prelude():
    S = pyeval.Seq
    return {"Select": lambda s, f: S(list(s)).Select(f), "Where": lambda s, f: S(list(s)).Where(f), "SelectMany": lambda s, f: S(list(s)).SelectMany(f),
            "First": lambda s: list(s)[0], "Count": lambda s: len(list(s)), "len": len, "abs": abs}


class PySeq(pyeval.Seq):
    ns = None

    def _fn(self, f):
        if isinstance(f, str):
            g = dict(self.ns)
            g.update(_eager_prelude())
            return eval(f, g)
        if isinstance(f, ast.AST):
            g = dict(self.ns)
            g.update(_eager_prelude())
            e = ast.Expression(body=copy.deepcopy(f))
            ast.fix_missing_locations(e)
            return eval(compile(e, "<c01-ast>", "eval"), g)
        return f

    def _mk(self, items):
        r = PySeq(items)
        r.ns = self.ns
        return r

    def Select(self, f):
        f = self._fn(f)
        return self._mk(f(x) for x in self)

    def Where(self, f):
        f = self._fn(f)
        return self._mk(x for x in self if f(x))

    def SelectMany(self, f):
        f = self._fn(f)
        return self._mk(y for x in self for y in f(x))

    def MetaData(self, d):
        return self

    def QMetaData(self, d):
        return self

    def AsAwkwardArray(self, columns=[]):
        return pyeval.PRELUDE["ResultAwkwardArray"](self, [columns] if isinstance(columns, str) else columns)

    def AsPandasDF(self, columns=[]):
        return pyeval.PRELUDE["ResultPandasDF"](self, [columns] if isinstance(columns, str) else columns)

    def AsROOTTTree(self, filename, treename, columns=[]):
        return pyeval.PRELUDE["ResultTTree"](self, [columns] if isinstance(columns, str) else columns, treename, filename)

    def AsParquetFiles(self, filename, columns=[]):
        return pyeval.PRELUDE["ResultParquet"](self, [columns] if isinstance(columns, str) else columns, filename)


def _run(coro):
    try:
        coro.send(None)
    except StopIteration as e:
        return e.value
    raise AssertionError("harness: executor did not finish")


def check(case) -> Result:
    from func_adl import EventDataset
    from func_adl.ast.aggregate_shortcuts import aggregate_node_transformer
    from func_adl.ast.func_adl_ast_utils import change_extension_functions_to_calls
    from func_adl.ast.function_simplifier import simplify_chained_calls
    from func_adl.ast.meta_data import extract_metadata

    text = module_text(case)
    user_part = text[len(PROLOGUE):]
    r = Result(sample={"program": user_part, "typed": case["typed"], "events": len(case["data"])}, key=user_part + repr(case["typed"]) + repr(case["data"]))

    class RecDS(EventDataset):
        async def execute_result_async(self, a, title=None):
            return a

    forms = {s.get("form") for s in case["stages"]}
    feats = []
    if "K1" in user_part or "K2" in user_part or "hscale(" in user_part or "hadd(" in user_part or "hsecond(" in user_part or "hsub(" in user_part:
        feats.append("capture/helper")
    if " for " in user_part or "R1(" in user_part or "R2(" in user_part or "R3(" in user_part or "N1(" in user_part or "N2(" in user_part or "N3(" in user_part or "Q3(" in user_part or "QN3(" in user_part:
        feats.append("sugar")
    if case["typed"] and any(x in user_part for x in (".jets()", ".jets(cut", ".trks()", ".scaled()", ".scaled(off", "jets('b')")):
        feats.append("typed-default")
    if any(x in user_part[user_part.find("lambda"):] for x in (".Select(lambda", ".Where(lambda", ".SelectMany(lambda", "Select(", "First(", ".First()", ".Count()", "Count(")):
        feats.append("nested-operator")
    if forms & {"string", "ast"}:
        feats.append("string/AST-form")
    if case["terminal"]:
        feats.append("terminal")
    parents = [s["parent"] for s in case["stages"]]
    if len(parents) != len(set(parents)):
        feats.append("branch")
    r.labels += feats + [f"stages:{len(case['stages'])}", "typed" if case["typed"] else "untyped"]

    mod_py = srcgen.load(text, prefix="vfc01py")
    mod = srcgen.load(text, prefix="vfc01fa")
    try:
        # the query-building function is called twice in the same process; the captured module constants differ the second time
        for rnd in range(2 if ("K1" in user_part or "K2" in user_part) else 1):
            if rnd == 1:
                r.labels.append("built-twice-with-different-captures")
                for m in (mod_py, mod):
                    m.K1, m.K2 = m.K1 + 10, m.K2 * 4
            res = _one_round(case, r, mod_py, mod, RecDS, feats, user_part, rnd)
            if res is not None:
                return res
        return r
    finally:
        srcgen.unload(mod_py)
        srcgen.unload(mod)


def _one_round(case, r, mod_py, mod, RecDS, feats, user_part, rnd):
    from func_adl.ast.aggregate_shortcuts import aggregate_node_transformer
    from func_adl.ast.func_adl_ast_utils import change_extension_functions_to_calls
    from func_adl.ast.function_simplifier import simplify_chained_calls
    from func_adl.ast.meta_data import extract_metadata

    # (B) python runs the chain directly
    if True:
        root = PySeq(typed_model.build(case["data"], lazy=False))
        root.ns = mod_py.__dict__
        try:
            outs_py = mod_py.build(root)
            want = {k: pyeval.materialise(v) for k, v in outs_py.items()}
        except Exception:
            r.ref_error = True
            return r

    # (A) the same text with a recording func_adl dataset
    if True:
        ds = RecDS(typed_model.Evt) if case["typed"] else RecDS()
        try:
            outs = mod.build(ds)
        except ValueError as e:
            r.labels.append("refused-at-build")
            r.sample["refusal"] = str(e)[:200]
            return r
        except Exception as e:
            return r.fail(f"building the query raised {type(e).__name__}: {e}\n{user_part}")
        r.nontrivial = r.nontrivial or (len(case["stages"]) >= 2 and bool(feats) and any(pyeval.mat_nonempty(w) for w in want.values()))
        for name, stream in outs.items():
            received = _run(stream.value_async())
            variants = [("as received", received)]
            cur = received
            for pname, fn in (("extract_metadata", lambda a: extract_metadata(a)[0]), ("method->function form", change_extension_functions_to_calls),
                              ("aggregate shortcuts", lambda a: aggregate_node_transformer().visit(a)), ("simplify_chained_calls", lambda a: simplify_chained_calls().visit(a))):
                try:
                    alone = fn(copy.deepcopy(_strip(received)))
                    cur = fn(copy.deepcopy(_strip(cur)))
                except Exception as e:
                    return r.fail(f"backend pass {pname} raised {type(e).__name__}: {e} on {ast.unparse(received)[:400]}\n{user_part}")
                variants.append((f"after {pname} alone", alone))
                variants.append((f"after the passes up to {pname}", cur))
            left = sorted({type(n).__name__ for n in ast.walk(received) if isinstance(n, (ast.ListComp, ast.GeneratorExp, ast.SetComp, ast.DictComp))})
            if left:
                return r.fail(f"stream {name}: {'/'.join(left)} syntax reaches the executor (LINQ has no comprehensions; every operator lowers them): {_u(received)[:500]}\n{user_part}")
            for vname, tree in variants:
                env = {"EventDataset": lambda: pyeval.DSeq(typed_model.build(case["data"], lazy=True))}
                for h in ("hscale", "hadd", "hsecond", "hsub"):  # helpers that were not inlined are left as calls by name
                    env[h] = getattr(mod, h)
                try:
                    got = pyeval.materialise(pyeval.evaluate(tree, env))
                except Exception as e:
                    return r.fail(f"stream {name} {vname}: evaluating the query raised {type(e).__name__}: {e}; query {_u(tree)[:500]}; python computes {str(want[name])[:200]}\n{user_part}")
                if got != want[name]:
                    return r.fail(f"stream {name} {vname}{' (second build)' if rnd else ''}: query {_u(tree)[:500]} computes {str(got)[:200]}; python running the chain computes {str(want[name])[:200]}\n{user_part}")
        return None


def _strip(tree):
    """drop the non-field annotations (executor reference, dataset object) so that deep copies stay cheap"""
    class S(ast.NodeTransformer):
        def visit_Call(self, n):
            self.generic_visit(n)
            if isinstance(n.func, ast.Name) and n.func.id == "EventDataset" and (hasattr(n, "_eds_object") or hasattr(n, "_func_adl_executor")):
                return ast.Call(func=ast.Name(id="EventDataset", ctx=ast.Load()), args=[], keywords=[])
            return n

    import copy as _c

    # copy-on-write not needed: work on a shallow-rebuilt tree
    return S().visit(_rebuild(tree))


def _rebuild(n):
    if isinstance(n, ast.AST):
        new = type(n)()
        for f in n._fields:
            if hasattr(n, f):
                setattr(new, f, _rebuild(getattr(n, f)))
        for a in ("_eds_object", "_func_adl_executor"):
            if hasattr(n, a):
                setattr(new, a, getattr(n, a))
        return new
    if isinstance(n, list):
        return [_rebuild(x) for x in n]
    return n


def _u(t):
    try:
        return ast.unparse(ast.fix_missing_locations(_rebuild(t)))
    except Exception:
        return ast.dump(t)[:400]


def selftest():
    compile(PROLOGUE, "<c01>", "exec")
    s = PySeq([1, 2, 3])
    s.ns = {}
    assert s.Select("lambda x: x + 1").Where(lambda x: x > 2) == [3, 4]
    assert pyeval.materialise(s.AsROOTTTree("f", "t", "c")) == pyeval.materialise(pyeval.PRELUDE["ResultTTree"](s, ["c"], "t", "f"))
