"""C05 - captured one-line helpers are inlined faithfully.

case = {"helpers": [{"name", "style": "def"|"lambda"|"defdoc", "params": [[name, kind, default|None]..], "body": text}...],
        "param": outer lambda parameter, "body": outer lambda body text}
kinds: N number, S sequence of ints, E element
"""
import ast

from hypothesis import strategies as st

from vf.common import srcgen
from vf.common.harness import Result
from vf.sem import pyeval

ID = "C05"
RULE = (
    "Generated modules with 1-3 helpers (def, def with docstring, name = lambda, lambda handed through a call, def built by a factory with free "
    "names, defs that are NOT a single return (annotated assignment / two statements) or have a keyword-only parameter (def and lambda helpers), positional-only parameters (a `/` in the parameter list), decorated helpers whose wrapper changes the result and bound methods (their source is not what they do); 1-3 parameters of kind "
    "number / sequence / element, optional defaults) whose bodies are drawn from: a bare parameter, the second parameter, "
    "unary/arithmetic/conditional over parameters, attribute of a parameter, a constant of the module, nested lambdas and comprehensions re-using a "
    "parameter name, an explicitly called inner lambda, calls to earlier helpers (1-3 deep), tuples; called from a lambda "
    "passed to Select with positional / keyword / re-ordered / mixed / default-omitting / starred-tuple call shapes, with argument "
    "expressions that mention names also bound inside the helper (outer binders named like helper parameters and like the "
    "helper's inner binders). Non-trivial = >=1 helper was actually inlined (its name no longer occurs in the emitted lambda). "
    "Distinct by module text."
)
ASSUMPTIONS = [
    "The reference value is what the real lambda returns on a sample element; the emitted lambda is evaluated by CPython "
    "with only those helper names bound that still occur in it as free names (helpers left as calls by name).",
    "A name captured by a helper (module constant, factory variable, further helper) may stay in the emitted lambda only if "
    "it belongs to a helper scope other than the query's module; it is then read in the helper's scope. A constant of the "
    "query's own module must not be left as a free name (no back end can know it).",
]
BUDGET = {"quick": (6, 800), "thorough": (16, 6000)}

PNAMES = ["a", "b", "x", "j", "e"]


@st.composite
def _helper_body(draw, params, earlier, want):
    """params: [(name, kind)], earlier: helper specs usable from here; want: 'N' or 'S'"""
    ns = [n for n, k in params if k == "N"]
    ss = [n for n, k in params if k == "S"]
    es = [n for n, k in params if k == "E"]

    def num(depth=1):
        opts = []
        if ns:
            n0 = draw(st.sampled_from(ns))
            opts += [n0, n0, f"-{n0}", f"{n0} * 2 + 1", f"(lambda {n0}: {n0} + 1)({n0} * 2)", f"({n0} if {n0} > 1 else 0)"]
            opts += [f"(lambda q: q * 10 + q)({n0} - 1)", f"(lambda x: x * x + x)({n0})", f"(lambda y_, {n0}={n0}: {n0} * 3 + y_)(1)"]
            if len(ns) > 1:
                opts += [f"(lambda q: q * 10 + q)({ns[0]} - {ns[1]})", f"(lambda {ns[0]}: {ns[0]} * 10 + {ns[0]})({ns[1]} - {ns[0]})",
                         ns[1], f"{ns[0]} - {ns[1]}", f"(lambda q: q + {ns[0]})({ns[1]})", f"(lambda {ns[1]}, {ns[0]}: {ns[0]} - {ns[1]})({ns[0]}, {ns[1]})"]
        if es:
            e0 = draw(st.sampled_from(es))
            opts += [f"{e0}.n", f"{e0}.n + {e0}.m", f"{e0}.xs.Count()"]
        if ss:
            s0 = draw(st.sampled_from(ss))
            opts += [f"{s0}.Count()", f"len({s0})", f"{s0}.Select(lambda {s0}: {s0} + 1).Count()"]
            if ns:
                bnd = draw(st.sampled_from(["x", "j", "q", "a", "b"]))  # the binder may be spelled like a parameter of a calling helper
                if bnd in (s0, ns[0]):
                    bnd = "q"
                opts += [f"(lambda y_, {ns[0]}={ns[0]}: {ns[0]} + y_)(1)"]  # a default value is read outside the lambda: it is the helper's parameter
                opts += [f"{s0}.Where(lambda {bnd}: {bnd} > {ns[0]}).Count()"] * 2 + [f"{s0}.Where(lambda {ns[0]}: {ns[0]} > 1).Count() + {ns[0]}"]
        for h in earlier:
            if h["ret"] == "N" and depth > 0:
                args = []
                ok = True
                for pn, pk, _ in h["params"]:
                    pool = {"N": ns, "S": ss, "E": es}[pk]
                    if not pool:
                        if pk == "N":
                            args.append(str(draw(st.integers(1, 4))))
                        else:
                            ok = False
                            break
                    elif pk == "N" and len(ns) >= 2 and draw(st.integers(0, 3)) > 0:
                        # an argument EXPRESSION over two parameters of the calling helper (their names may coincide with the
                        # callee's parameters and with binders inside the callee's body)
                        a1, a2 = draw(st.permutations(ns))[:2]
                        args.append(f"({a1} * 10 + {a2})")
                    else:
                        args.append(draw(st.sampled_from(pool)))
                if ok:
                    opts += [f"{h['name']}({', '.join(args)})"] * 4
        if not opts:
            opts = ["7"]
        return draw(st.sampled_from(opts))

    if want == "N":
        k = draw(st.integers(0, 5))
        if k == 0:
            return f"{num()} + {num(0)}"
        if k == 1:
            return f"({num()}, {num(0)})[0]"
        return num()
    # sequence result
    opts = []
    if ss:
        s0 = draw(st.sampled_from(ss))
        opts += [s0, f"{s0}.Select(lambda {s0}: {s0} + 1)", f"[{s0} * 2 for {s0} in {s0}]", f"{s0}.Select(lambda x: x * 2)"]
        if ns:
            n0 = ns[0]
            opts += [f"[q * {n0} for q in range(1, 4)]", f"[{n0} + x for x in range(3)]", f"[j for j in range(4) if j > {n0} - 5]",
                     f"{s0}.Select(lambda x: x + {n0})", f"{s0}.Select(lambda j: j + {n0})", f"[x + {n0} for x in {s0}]", f"[{n0} * 2 for {n0} in {s0}]",
                     f"{s0}.Where(lambda x: x > {n0})", f"[j for j in {s0} if j > {n0}]", f"{s0}.Select(lambda {n0}: {n0} + 1)"]
    if es:
        e0 = es[0]
        opts += [f"{e0}.xs", f"{e0}.xs.Select(lambda {e0}: {e0} + 1)", f"{e0}.xs.Select(lambda x: x + {e0}.n)"]
    if ns and not ss:
        n0 = ns[0]
        opts += [f"[q * {n0} for q in range(1, 4)]", f"[{n0} + x for x in range(3)]", f"[j * {n0} for j in range(1, 3)]", f"[a + {n0} for a in range(2)]" if n0 != "a" else f"[b + {n0} for b in range(2)]"]
    if not opts:
        return None
    return draw(st.sampled_from(opts))


def _word_in(w, text):
    import re

    return re.search(rf"\b{w}\b", text) is not None


@st.composite
def _case(draw):
    helpers = []
    for i in range(draw(st.integers(1, 3))):
        n = draw(st.integers(1, 3))
        names = draw(st.permutations(PNAMES))[:n]
        kinds = [draw(st.sampled_from(["N", "N", "S", "E"])) for _ in range(n)]
        want = draw(st.sampled_from(["N", "N", "S"]))
        body = draw(_helper_body(list(zip(names, kinds)), helpers, want))
        if body is None:
            want = "N"
            body = draw(_helper_body(list(zip(names, kinds)), helpers, "N"))
        params = [[nm, kd, None] for nm, kd in zip(names, kinds)]
        # any trailing run of number parameters may have defaults (all different, so that a mix-up between them shows)
        if draw(st.integers(0, 2)) == 0:
            dvals = draw(st.permutations([1, 2, 3, 4, 5]))
            for j in range(n - 1, -1, -1):
                if params[j][1] != "N" or (j < n - 1 and draw(st.booleans())):
                    break
                params[j][2] = str(dvals[j])
        style = draw(st.sampled_from(["def", "def", "lambda", "defdoc", "lambda-arg", "lambda-decoy"]))
        nparams = [nm for nm, kd in zip(names, kinds) if kd == "N"]
        if want == "N" and nparams and draw(st.integers(0, 5)) == 0:
            # helpers that are NOT a single return statement (must stay calls by name) / have a keyword-only parameter
            style = draw(st.sampled_from(["def-annassign", "def-two-lines", "def-kwonly", "def-kwonly"]))
        closure = None
        if style in ("def", "defdoc", "lambda") and want == "N" and draw(st.integers(0, 5)) == 0:
            # the helper uses a constant of its own module (the module of the query): it must not be left as a free name
            # the constant may be spelled like a name that the QUERY lambda (or a lambda / comprehension nested in it) binds around
            # the call: inside the helper it still is the module's constant
            cname = draw(st.sampled_from([f"K{i}", f"K{i}", "e", "j", "v", "x"]))
            if cname in names or any(cname == h_["closure"]["name"] for h_ in helpers if h_.get("closure")) or _word_in(cname, body):
                cname = f"K{i}"
            closure = {"kind": "modconst", "name": cname, "value": draw(st.integers(5, 9))}
            body = f"({body}) + {cname}"
        if closure is None and style in ("def", "defdoc") and want == "N" and draw(st.integers(0, 3)) == 0:
            # the helper lives in another scope (a factory) and has a free name of its own; the module that holds the query
            # defines the same name with another meaning
            if draw(st.booleans()):
                closure = {"kind": "const", "name": f"k{i}", "inner": draw(st.integers(10, 12)), "outer": draw(st.integers(1, 3))}
                body = f"({body}) + k{i}"
            else:
                closure = {"kind": "fn", "name": f"g{i}", "inner": "v * 100", "outer": "v - 7"}
                body = f"g{i}({body})"
        # positional-only parameters: a `/` after the first k parameters (such a helper is called positionally)
        slash = draw(st.integers(1, n)) if draw(st.integers(0, 5)) == 0 else None
        if style == "def" and want == "N" and closure is None and draw(st.integers(0, 7)) == 0:
            style = "lambda-kwonly"  # a recoverable lambda helper with a defaulted keyword-only parameter
        elif style == "def" and want == "N" and closure is None and slash is None and draw(st.integers(0, 7)) == 0:
            # helpers whose SOURCE is not what they do: a decorated function (functools.wraps wrapper changes the result), a bound
            # method (its self is an object): inlining the text that inspect finds would compute something else
            style = draw(st.sampled_from(["def-wrapped", "bound-method"]))
        helpers.append({"name": f"h{i}", "style": style, "params": params, "body": body, "ret": want, "closure": closure, "slash": slash, "rebound_default": draw(st.integers(0, 2)) == 0})
    p = draw(st.sampled_from(["e", "e", "j", "a", "x"]))
    inner = draw(st.sampled_from(["j", "a", "x", "b", "v"]))
    items = []
    for _ in range(draw(st.integers(1, 3))):
        h = draw(st.sampled_from(helpers))
        in_nested = draw(st.booleans())
        inner_outer = inner
        # the operator lambda around the call may bind the very name a lambda / comprehension INSIDE the helper binds, and the
        # arguments may use that name both free (the operator's variable) and as a binder of their own
        import re as _re
        body_binders = _re.findall(r"lambda (\w+):|for (\w+) in", h["body"])
        body_binders = [a_ or b_ for a_, b_ in body_binders]
        clash = in_nested and body_binders and {k_ for _, k_, _ in h["params"]} >= {"N", "S"} and draw(st.booleans())
        if clash:
            inner = draw(st.sampled_from(body_binders))
            if inner == p:
                inner, clash = inner_outer, False
        args = []
        for pn, pk, d in h["params"]:
            if pk == "N":
                nested_calls = [f"{g['name']}({', '.join([p + '.n'] * len(g['params']))})" for g in helpers
                                if g["ret"] == "N" and all(k == "N" for _, k, _ in g["params"])]
                a = draw(st.sampled_from([f"{p}.n", f"{p}.m", "3", f"{p}.n * 2"] + ([inner, f"{inner} + 1"] if in_nested else []) + nested_calls))
                if clash:
                    a = draw(st.sampled_from([inner, f"{inner} + 1"]))
            elif pk == "S":
                a = draw(st.sampled_from([f"{p}.xs", f"{p}.xs.Select(lambda {inner}: {inner} + 1)", f"{p}.xs.Where(lambda q: q > 1)"]))
                if clash:
                    a = draw(st.sampled_from([f"{p}.xs.Select(lambda {inner}: {inner} + 1)", f"[{inner} for {inner} in {p}.xs if {inner} > 1]", f"{p}.xs.Where(lambda {inner}: {inner} > 1)"]))
            else:
                a = p
            args.append([pn, a, d])
        shape = draw(st.integers(0, 4))
        if h.get("slash"):
            shape = 0
        star = args and draw(st.integers(0, 9)) == 0  # the positional arguments handed over as one starred tuple
        if star:
            shape = 0
        while args and args[-1][2] is not None and draw(st.booleans()):
            args = args[:-1]  # omit a trailing defaulted parameter (some, all or none of them)
        if star and args:
            call = "*(" + ", ".join(a for _, a, _ in args) + ",)"
        elif shape == 0 or len(args) == 0:
            call = ", ".join(a for _, a, _ in args)
        elif shape == 1:
            call = ", ".join(f"{n}={a}" for n, a, _ in args)
        elif shape == 2:
            call = ", ".join(f"{n}={a}" for n, a, _ in reversed(args))
        elif shape == 3:
            call = ", ".join([args[0][1]] + [f"{n}={a}" for n, a, _ in args[1:]])
        else:
            call = ", ".join(a for _, a, _ in args)
        if h["style"] in ("def-kwonly", "lambda-kwonly") and draw(st.booleans()):
            call = (call + ", " if call else "") + f"kw_={draw(st.integers(1, 4))}"
        expr = f"{h['name']}({call})"
        if in_nested:
            expr = f"{p}.xs.Select(lambda {inner}: {expr})"
        inner = inner_outer
        items.append(expr)
    if draw(st.integers(0, 4)) == 0:
        # two-level shape: the inner helper holds a lambda; the outer one passes an argument EXPRESSION whose names may be
        # spelled like the inner helper's parameter and like the binder of that lambda (substitution must keep scopes apart)
        pool = ["x", "j", "a"]
        p1 = draw(st.sampled_from(pool))
        bnd = draw(st.sampled_from([n for n in pool if n != p1]))
        q1, q2 = draw(st.permutations(pool))[:2]
        k = len(helpers)
        inner_body = draw(st.sampled_from([f"s.Where(lambda {bnd}: {bnd} > {p1}).Count()", f"s.Select(lambda {bnd}: {bnd} * {p1}).Count() + {p1}",
                                           f"(lambda {bnd}: {bnd} * 10 + {p1})({p1} - 1)"]))
        helpers.append({"name": f"h{k}", "style": "def", "params": [["s", "S", None], [p1, "N", None]], "body": inner_body, "ret": "N", "closure": None})
        outer_arg = draw(st.sampled_from([f"({q1} * 10 + {q2})", f"({q2} - {q1})", q1]))
        helpers.append({"name": f"h{k + 1}", "style": draw(st.sampled_from(["def", "defdoc"])), "params": [["b", "S", None], [q1, "N", None], [q2, "N", None]],
                        "body": f"h{k}(b, {outer_arg})", "ret": "N", "closure": None})
        items.append(f"h{k + 1}({p}.xs, {p}.n - {draw(st.integers(0, 6))}, {draw(st.integers(1, 4))})")
    body = "(" + ", ".join(items) + ("," if len(items) == 1 else "") + ")"
    return {"helpers": helpers, "param": p, "body": body}


def strategy(tier):
    return _case()


def module_text(case):
    lines = ["def _keep(f):\n    return f"]
    for h in case["helpers"]:
        plist = [n if d is None else f"{n}={d}" for n, _, d in h["params"]]
        start = len(lines)
        rebound = bool(h.get("rebound_default")) and h["params"] and h["params"][-1][2] is not None and h["style"] in ("def", "defdoc", "lambda-arg") and not h.get("closure")
        if rebound:
            # the default is written as a module variable that is re-bound after the helper is made: the helper keeps the value it
            # was made with
            plist[-1] = f"{h['params'][-1][0]}=DV_{h['name']}"
        if h.get("slash"):
            plist.insert(h["slash"], "/")
        ps = ", ".join(plist)
        if h.get("closure") and h["closure"]["kind"] == "modconst":
            c = h["closure"]
            hd = f"{h['name']} = lambda {ps}: {h['body']}" if h["style"] == "lambda" else f"def {h['name']}({ps}):\n    return {h['body']}"
            lines.append(f"{c['name']} = {c['value']}\n{hd}")
        elif h["style"] == "lambda":
            lines.append(f"{h['name']} = lambda {ps}: {h['body']}")
        elif h["style"] == "lambda-arg":  # a lambda helper written as the argument of a call: its source is recoverable
            lines.append(f"{h['name']} = _keep(lambda {ps}: {h['body']})")
        elif h["style"] == "lambda-decoy":  # an unrelated lambda with the same parameter list on the line above the helper
            lines.append(f"_decoy_{h['name']} = _keep(lambda {ps}: 12345)\n{h['name']} = lambda {ps}: {h['body']}")
        elif h["style"] == "def-annassign":
            a0 = next(n for n, k, _ in h["params"] if k == "N")
            lines.append(f"def {h['name']}({ps}):\n    {a0}: float = abs({a0}) + 1\n    return {h['body']}")
        elif h["style"] == "def-two-lines":
            lines.append(f"def {h['name']}({ps}):\n    t_ = {h['body']}\n    return t_ * 2")
        elif h["style"] == "lambda-kwonly":
            lines.append(f"{h['name']} = _keep(lambda {ps}, *, kw_=3: ({h['body']}) + kw_)")
        elif h["style"] == "def-wrapped":
            lines.append(f"def _deco_{h['name']}(fn):\n    import functools\n    @functools.wraps(fn)\n    def w(*a, **k):\n        return fn(*a, **k) + 1000\n    return w\n"
                         f"@_deco_{h['name']}\ndef {h['name']}({ps}):\n    return {h['body']}")
        elif h["style"] == "bound-method":
            lines.append(f"class _K_{h['name']}:\n    k_ = 500\n    def m(self, {ps}):\n        return ({h['body']}) + self.k_\n{h['name']} = _K_{h['name']}().m")
        elif h["style"] == "def-kwonly":
            lines.append(f"def {h['name']}({ps}, *, kw_=3):\n    return ({h['body']}) + kw_")
        elif h.get("closure"):
            c = h["closure"]
            doc = "        \"a helper\"\n" if h["style"] == "defdoc" else ""
            if c["kind"] == "const":
                inner, outer = f"    {c['name']} = {c['inner']}", f"{c['name']} = {c['outer']}"
            else:
                inner, outer = f"    def {c['name']}(v):\n        return {c['inner']}", f"def {c['name']}(v):\n    return {c['outer']}"
            lines.append(f"def _mk_{h['name']}():\n{inner}\n    def {h['name']}({ps}):\n{doc}        return {h['body']}\n    return {h['name']}\n{h['name']} = _mk_{h['name']}()\n{outer}")
        elif h["style"] == "defdoc":
            lines.append(f"def {h['name']}({ps}):\n    \"a helper\"\n    return {h['body']}")
        else:
            lines.append(f"def {h['name']}({ps}):\n    return {h['body']}")
        if rebound:
            lines.insert(start, f"DV_{h['name']} = {h['params'][-1][2]}")
            lines.append(f"DV_{h['name']} = {h['params'][-1][2]} + 100")
    lines.append(f"def build(ds):\n    return ds.Select(lambda {case['param']}: {case['body']})")
    return "\n".join(lines) + "\n"


class _Elem:
    def __init__(self):
        self._vf_id = 1
        self.n = 5
        self.m = 2.5
        self.xs = pyeval.Seq([1, 2, 3])


def check(case) -> Result:
    from func_adl import EventDataset

    text = module_text(case)
    r = Result(sample=text, key=text)
    log = []

    class RecDS(EventDataset):
        async def execute_result_async(self, a, title=None):
            return a

        def Select(self, f):
            try:
                log.append(("ok", pyeval.materialise(f(_Elem()))))
            except Exception as e:
                log.append(("exc", type(e).__name__ + ": " + str(e)))
            return EventDataset.Select(self, f)

    mod = srcgen.load(text, {"len": len, "range": range})
    try:
        try:
            s = mod.build(RecDS())
        except Exception as e:
            if log and log[-1][0] == "exc":
                r.ref_error = True
                return r
            return r.fail(f"Select raised {type(e).__name__}: {e}\n{text}")
        if log[-1][0] == "exc":
            r.ref_error = True
            return r
        lam = s.query_ast.args[1]
        hnames = {h["name"] for h in case["helpers"]}
        try:
            free = pyeval.free_names(lam)
        except Exception as e:
            return r.fail(f"emitted lambda is malformed: {type(e).__name__}: {e}\n{text}")
        left = free & hnames
        # free names of helpers that live in another scope: when they are left in the query they mean what they mean to the helper
        import inspect

        helper_scope = {}
        for h in case["helpers"]:
            if h.get("closure") and h["closure"]["kind"] != "modconst":
                helper_scope.update(inspect.getclosurevars(getattr(mod, h["name"])).nonlocals)
        stray = free - hnames - set(pyeval.PRELUDE) - {"range"} - set(helper_scope)
        if helper_scope:
            r.labels.append("helper-from-another-scope")
        called = {n.func.id for n in ast.walk(ast.parse(case["body"], mode="eval")) if isinstance(n, ast.Call) and isinstance(n.func, ast.Name)} & hnames
        inlined = called - left
        if inlined:
            r.labels.append("inlined")
        if left:
            r.labels.append("left-as-call-by-name")
        for h in case["helpers"]:
            if h["name"] in called:
                r.labels.append("style:" + h["style"])
        if "=" in case["body"].replace("==", ""):
            r.labels.append("keyword-call-shape")
        r.nontrivial = bool(inlined)
        if stray:
            return r.fail(f"unbound name(s) {sorted(stray)} in the emitted lambda `{ast.unparse(lam)}`\n{text}")
        env = {n: getattr(mod, n) for n in left}
        env.update({n: v for n, v in helper_scope.items() if n in free})
        env["range"] = lambda *a: pyeval.Seq(range(*a))
        try:
            got = pyeval.materialise(pyeval.evaluate(lam, env)(_Elem()))
        except Exception as e:
            return r.fail(f"emitted lambda `{ast.unparse(lam)}` raised {type(e).__name__}: {e}; python calling the helpers gives {log[-1][1]}\n{text}")
        if got != log[-1][1]:
            return r.fail(f"emitted lambda `{ast.unparse(lam)}` gives {got}; python calling the helpers gives {log[-1][1]}\n{text}")
        return r
    finally:
        srcgen.unload(mod)


def selftest():
    case = {"helpers": [{"name": "h0", "style": "def", "params": [["a", "N", None], ["b", "N", "2"]], "body": "a - b", "ret": "N"}], "param": "e", "body": "(h0(b=1, a=e.n),)"}
    compile(module_text(case), "<c05>", "exec")
