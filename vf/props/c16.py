"""C16 - query-level metadata accumulates, is inherited, never reaches a backend.

case = {"roots": n, "ops": [ {"op": ..., "on": int, ...}, ... ]}; 'on' is taken modulo the number of streams so far.
A twin forest is built with the same operations minus every QMetaData.
"""


import ast

from hypothesis import strategies as st

from vf.common.harness import Result

ID = "C16"
KEYS = ["a", "b", "c", "d"]
RULE = (
    "Histories (6-30 steps) over a forest of streams on 1-3 roots (untyped dataset, typed dataset with a MetaData-adding "
    "callback, a bare ObjectStream over a Name node): QMetaData with 0-3 keys from a 4-key pool (new key, repeated key with equal/different value, "
    "consecutive calls, on roots and derived streams), Select/Where/SelectMany/MetaData/result terminals, branching "
    "from any earlier stream, value(). Model = per-stream dict (parent's dict updated by own call); invariant after "
    "every step over all streams x all keys. Non-trivial = >=2 QMetaData calls on one derivation path with an earlier "
    "key not repeated later AND >=1 branch. Distinct by history."
)
ASSUMPTIONS = [
    "Metadata values are non-None JSON-like values (None is the documented 'not found' result).",
    "Executors are stepped by hand through value_async (no threads); the received AST is compared with the twin's "
    "by ast.dump and calc_ast_hash.",
]
BUDGET = {"quick": (8, 300), "thorough": (16, 4000)}

LAMBDAS = {
    "select": ["lambda e: e.jets()", "lambda e: e.met + 1", "lambda e: (e.x, e.y)", "lambda e: {'p': e.pt, 'q': e.eta}", "lambda j: j.jets().Select(lambda t: t.pt())"],
    "where": ["lambda e: e.met > 10", "lambda e: e.jets().Count() > 1 and e.ok"],
    "selectmany": ["lambda e: e.jets()", "lambda e: e.jets().Where(lambda j: j.pt() > 1)"],
}
# different values may print alike (1 and '1', True and 'True', [0] and '[0]'): what counts is the value
_vals = st.one_of(st.integers(0, 3), st.sampled_from(["x", "y", ""]), st.lists(st.integers(0, 2), max_size=2), st.booleans(), st.just(0.5),
                  st.sampled_from(["1", "2", "True", "0.5", "[0]", "[]", "None"]))


@st.composite
def _op(draw):
    k = draw(st.integers(0, 11))
    on = draw(st.one_of(st.just(-1), st.just(-1), st.just(-2), st.integers(0, 40)))
    if k <= 4:
        keys = draw(st.lists(st.sampled_from(KEYS), min_size=draw(st.sampled_from([0, 1, 1, 1, 1, 2])), max_size=3, unique=True))
        return {"op": "qmd", "on": on, "d": {kk: draw(_vals) for kk in keys}}
    if k <= 6:
        return {"op": "select", "on": on, "f": draw(st.integers(0, len(LAMBDAS["select"]) - 1))}
    if k == 7:
        return {"op": "where", "on": on, "f": draw(st.integers(0, 1))}
    if k == 8:
        return {"op": "selectmany", "on": on, "f": draw(st.integers(0, 1))}
    if k == 9:
        return {"op": "metadata", "on": on, "d": draw(st.sampled_from([{}, {"m": 1}, {"m": 2, "n": "s"},
                                                                       # a backend block that happens to use the key names of the query metadata
                                                                       {"a": "backend"}, {"b": 77, "c": "backend"}]))}
    if k == 10:
        return {"op": "terminal", "on": on, "t": draw(st.integers(0, 3))}
    return {"op": "value", "on": on, "title": draw(st.sampled_from([None, "t"]))}


@st.composite
def _case(draw, maxlen):
    return {"roots": draw(st.sampled_from([1, 2, 2, 3])), "ops": draw(st.lists(_op(), min_size=6, max_size=maxlen)), "shared_dict": draw(st.booleans())}


def strategy(tier):
    return _case(18 if tier == "quick" else 30)


def run_coro(coro):
    try:
        coro.send(None)
    except StopIteration as e:
        return e.value
    raise AssertionError("harness: executor coroutine did not finish in one step")


def check(case) -> Result:
    from typing import Iterable

    from func_adl import EventDataset, ObjectStream, func_adl_callback
    from func_adl.ast.ast_hash import calc_ast_hash
    from func_adl.ast.meta_data import lookup_query_metadata

    r = Result(sample=case, key=repr(case))

    def cb(s: ObjectStream, a: ast.Call):
        return s.MetaData({"cb": "jets"}), a

    class Jet:
        def pt(self) -> float: ...

    @func_adl_callback(cb)
    class Evt:
        def jets(self) -> Iterable[Jet]: ...

    class DS(EventDataset):
        def __init__(self, typed):
            if typed:
                super().__init__(Evt)
            else:
                super().__init__()
            self.got = []

        async def execute_result_async(self, a, title=None):
            self.got.append((a, title))
            return len(self.got)

    # streams: list of (real, twin, model dict, parent index, depth-first path of qmd calls)
    streams = []
    for i in range(case["roots"]):
        typed = i == 1
        if i == 2:
            # a root that is not an EventDataset: a bare ObjectStream over a Name node (no executor; lookups must work all the same)
            streams.append([ObjectStream(ast.Name(id="e", ctx=ast.Load())), ObjectStream(ast.Name(id="e", ctx=ast.Load())), {}, None, []])
            continue
        streams.append([DS(typed), DS(typed), {}, None, []])
    n_qmd = 0
    shared = {}
    if case.get("shared_dict"):
        r.labels.append("one-dict-object-re-used")
    branch = False
    children = {}
    interesting_path = False

    def invariant(step):
        for idx, (real, twin, model, _, _) in enumerate(streams):
            for k in KEYS:
                got = lookup_query_metadata(real, k)
                want = model.get(k)
                if got != want:
                    return f"after step {step}: lookup of {k!r} on stream #{idx} gives {got!r}, model says {want!r}"
            if ast.dump(real.query_ast) != ast.dump(twin.query_ast):
                return f"after step {step}: dump of stream #{idx} differs from the chain built without QMetaData"
        return None

    for step, op in enumerate(case["ops"]):
        on = op["on"] % len(streams)
        real, twin, model, _, path = streams[on]
        kind = op["op"]
        try:
            if kind == "qmd":
                # the caller may re-use ONE dict object for all its calls, updating it in between (what was set is what it held
                # at the call)
                if case.get("shared_dict"):
                    shared.clear()
                    shared.update(op["d"])
                    nreal = real.QMetaData(shared)
                    shared["zz"] = "added after the call"
                else:
                    nreal = real.QMetaData(dict(op["d"]))
                ntwin = twin
                nmodel = dict(model)
                nmodel.update(op["d"])
                npath = path + [sorted(op["d"])]
                if op["d"]:
                    n_qmd += 1
            elif kind in ("select", "where", "selectmany"):
                lam = LAMBDAS[kind][op["f"]]
                meth = {"select": "Select", "where": "Where", "selectmany": "SelectMany"}[kind]
                try:
                    ntwin = getattr(twin, meth)(lam)
                except Exception as te:  # the lambda does not fit this stream's item type: refused with or without QMetaData
                    try:
                        getattr(real, meth)(lam)
                    except Exception as re_:
                        if type(re_) is type(te):
                            r.labels.append("op-refused-by-typing")
                            continue
                    return r.fail(f"step {step}: {op} is refused without QMetaData ({type(te).__name__}) but not with it")
                nreal = getattr(real, meth)(lam)
                nmodel, npath = dict(model), path
            elif kind == "metadata":
                nreal, ntwin = real.MetaData(dict(op["d"])), twin.MetaData(dict(op["d"]))
                nmodel, npath = dict(model), path
            elif kind == "terminal":
                t = op["t"]
                mk = [
                    lambda s: s.AsAwkwardArray(["c"]),
                    lambda s: s.AsPandasDF("c"),
                    lambda s: s.AsROOTTTree("f.root", "t", ["c"]),
                    lambda s: s.AsParquetFiles("f.pq", ["c"]),
                ][t]
                nreal, ntwin = mk(real), mk(twin)
                nmodel, npath = dict(model), path
            else:  # value
                root_r = _root(streams, on, 0)
                root_t = _root(streams, on, 1)
                if not isinstance(root_r, DS):
                    continue  # derived from the bare root: nothing can execute it
                nr, nt = len(root_r.got), len(root_t.got)
                run_coro(real.value_async(title=op["title"]))
                run_coro(twin.value_async(title=op["title"]))
                if len(root_r.got) != nr + 1 or len(root_t.got) != nt + 1:
                    return r.fail(f"step {step}: executor not invoked exactly once")
                a_r, a_t = root_r.got[-1][0], root_t.got[-1][0]
                if ast.dump(a_r) != ast.dump(a_t):
                    return r.fail(f"step {step}: AST handed to the executor differs from the chain without QMetaData: {ast.unparse(a_r)} vs {ast.unparse(a_t)}")
                if calc_ast_hash(a_r) != calc_ast_hash(a_t):
                    return r.fail(f"step {step}: hash of executed query differs from the chain without QMetaData")
                r.labels.append("value")
                err = invariant(step)
                if err:
                    return r.fail(err)
                continue
        except Exception as e:
            return r.fail(f"step {step} {op} raised {type(e).__name__}: {e}")
        streams.append([nreal, ntwin, nmodel, on, npath])
        children[on] = children.get(on, 0) + 1
        if children[on] >= 2:
            branch = True
        if len(npath) >= 2:
            later = set(k for ks in npath[1:] for k in ks)
            if any(k not in later for k in npath[0]) and npath[0]:
                interesting_path = True
        err = invariant(step)
        if err:
            return r.fail(err)
        if calc_ast_hash(nreal.query_ast) != calc_ast_hash(ntwin.query_ast):
            return r.fail(f"after step {step}: hash differs from the chain built without QMetaData")

    r.labels.append(f"qmd-calls:{min(n_qmd, 5)}")
    if branch:
        r.labels.append("branch")
    if interesting_path:
        r.labels.append("earlier-key-not-repeated")
    if case["roots"] >= 2:
        r.labels.append("typed-root-present")
    if case["roots"] == 3:
        r.labels.append("bare-name-root-present")
    r.nontrivial = interesting_path and branch
    return r


def _root(streams, idx, which):
    while streams[idx][3] is not None:
        idx = streams[idx][3]
    return streams[idx][which]


def selftest():
    pass
