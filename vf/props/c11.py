"""C11 - streams are immutable values.

case = {"roots": [typed?...], "ops": [{"op": ..., "on": int, ...}, ...]}   ('on' is modulo the number of streams so far)
"""
import ast
from typing import Iterable  # noqa: F401

from hypothesis import strategies as st

from vf.common import srcgen
from vf.common.harness import Result

ID = "C11"
RULE = (
    "Histories (5-30 steps) over a forest of streams on 1-3 datasets (typed, with callbacks that add MetaData incl. an "
    "empty one, and untyped): Select/Where/SelectMany with lambdas from a pool supplied as string, as callable, or as one "
    "shared ast.Lambda object re-used across steps and datasets; MetaData(d), MetaData({}), QMetaData, the four result "
    "terminals, value_async with and without override executor, value(); a simulated backend applies the library's "
    "remove_empty_metadata / extract_metadata to the AST it received. Failed derivations are part of the history. "
    "Invariant after every step, for every stream ever created: ast.dump(query_ast), item_type, the query-metadata "
    "view and the position / target of the executor and dataset references annotated on its nodes equal the snapshot taken at creation; at the end every successful derivation is repeated and must give the same query and item type as the first time (lambda pool includes free names spelled like other lambdas' parameters). Non-trivial = the history contains an execution or a derivation from a "
    "stream that already has descendants, and a typed fix-up (default argument / callback metadata) or an empty MetaData "
    "wrapper is present. Distinct by history."
)
ASSUMPTIONS = [
    "Executors are user code; the simulated backend only calls library functions documented to return a new AST "
    "(remove_empty_metadata, extract_metadata).",
    "value() (thread based via make_it_sync) is exercised at most twice per history; other executions step value_async by hand.",
]
BUDGET = {"quick": (6, 250), "thorough": (16, 3000)}

POOL0 = {
    "Select": ["lambda e: e.jets()", "lambda e: e.jets().Select(lambda j: j.pt())", "lambda e: {'a': e.met(), 'b': e.jets()}",
               "lambda e: e.met() + 1", "lambda e: e", "lambda e: (e.met(), e.jets(name='n').Count())", "lambda j: j.pt()", "lambda d: d.b.Count() + d.a",
               "lambda e: e.jets().Where(lambda j: j.pt(2.0) > 1).Count()",
               # free names spelled like parameters of the other lambdas (they mean nothing here: no type, no default filling)
               "lambda x: j.pt() + e.met()", "lambda x: (x, e.jets())"],
    "Where": ["lambda e: e.met() > 1", "lambda e: e.jets().Count() > 0 and e.met() > 0", "lambda j: j.pt() > 1", "lambda d: d.a > 0",
              "lambda x: e.met() > j.pt()"],
    "SelectMany": ["lambda e: e.jets()", "lambda e: e.jets().Select(lambda j: j.pt(3.0))", "lambda d: d.b", "lambda e: e.jets().Where(lambda j: j.pt() > 2)"],
}
QKEYS = ["a", "b"]


@st.composite
def _op(draw):
    k = draw(st.integers(0, 19))
    on = draw(st.one_of(st.just(-1), st.just(-2), st.integers(0, 30)))
    if k <= 8:
        op = draw(st.sampled_from(["Select", "Select", "Where", "SelectMany"]))
        if draw(st.integers(0, 3)) == 0:
            on = "roots"  # the same query step applied to every dataset in turn (one analysis, several samples)
        return {"op": op, "on": on, "f": draw(st.integers(0, len(POOL0[op]) - 1)), "form": draw(st.sampled_from(["string", "ast", "ast", "callable"]))}
    if k in (9, 17):
        return {"op": "MetaData", "on": on, "d": draw(st.sampled_from([{}, {}, {"m": 1}, {"m": "x", "n": [1]}]))}
    if k in (10, 18, 19):
        # query metadata is most interesting directly on the stream that was just created (e.g. an (empty) MetaData wrapper)
        return {"op": "QMetaData", "on": draw(st.sampled_from([-1, -1, -1, on])), "d": draw(st.sampled_from([{}, {"a": 1}, {"b": 2}, {"a": 3, "b": 4}]))}
    if k == 11:
        return {"op": "terminal", "on": on, "t": draw(st.integers(0, 3))}
    if k <= 15:
        return {"op": "value_async", "on": on, "override": draw(st.booleans()), "backend": draw(st.lists(st.sampled_from(["remove_empty", "extract"]), max_size=2))}
    if k == 16:
        return {"op": "value", "on": on}
    return {"op": "value_async", "on": on, "override": False, "backend": ["extract", "remove_empty"]}


@st.composite
def _case(draw, maxlen):
    roots = draw(st.lists(st.booleans(), min_size=1, max_size=3))
    return {"roots": roots, "ops": draw(st.lists(_op(), min_size=5, max_size=maxlen))}


def strategy(tier):
    return _case(20 if tier == "quick" else 32)


def run_coro(coro):
    try:
        coro.send(None)
    except StopIteration as e:
        return e.value
    raise AssertionError("harness: executor did not finish in one step")


_MODULE_SRC = None


def _uniq(lam, tag):
    """rename the lambda parameters with a per-case tag: text-keyed caches inside the library start cold in every case"""
    import re

    return re.sub(r"\b([ejd])\b", lambda m: f"{m.group(1)}_{tag}", lam)


def _module_text(pool):
    lines = []
    for op, lams in pool.items():
        for i, lam in enumerate(lams):
            lines.append(f"def f_{op}_{i}(s):")
            lines.append(f"    return s.{op}({lam})")
    return "\n".join(lines) + "\n"


def check(case) -> Result:
    from func_adl import EventDataset, ObjectStream, func_adl_callback
    from func_adl.ast.meta_data import extract_metadata, lookup_query_metadata, remove_empty_metadata

    r = Result(sample=case, key=repr(case))
    import hashlib

    tag = hashlib.sha1(repr(case).encode()).hexdigest()[:6]
    POOL = {op: [_uniq(lam, tag) for lam in lams] for op, lams in POOL0.items()}

    def cb_cls(s: ObjectStream, a: ast.Call):
        return s.MetaData({"cb": "Evt"}), a

    def cb_empty(s: ObjectStream, a: ast.Call):
        return s.MetaData({}), a

    class Jet:
        @func_adl_callback(cb_empty)
        def pt(self, scale: float = 1.0) -> float: ...

    class Evt:
        def jets(self, name: str = "x") -> Iterable[Jet]: ...

        def met(self) -> float: ...

    # in two of three cases the event class has a class-level callback too (it fires first and replaces the working stream of the
    # type follower; without it the callbacks inside nested lambdas are the only ones that touch it)
    if len(repr(case)) % 3 != 0:
        Evt = func_adl_callback(cb_cls)(Evt)
    else:
        r.labels.append("no-class-callback-on-the-event-class")

    class DS(EventDataset):
        def __init__(self, typed):
            if typed:
                super().__init__(Evt)
            else:
                super().__init__()
            self.got = []

        async def execute_result_async(self, a, title=None):
            self.got.append(a)
            return a

    shared = {(op, i): ast.parse(lam, mode="eval").body for op, lams in POOL.items() for i, lam in enumerate(lams)}
    shared_pristine = {k: ast.dump(v) for k, v in shared.items()}
    mod = srcgen.load(_module_text(POOL))
    try:
        streams = []  # [stream, snapshot]
        has_children = set()
        feats = {"exec": False, "rederive": False, "fixup": False, "empty": False, "shared-ast": False, "failed-derive": False}

        def snap(s):
            # the executor / dataset references func_adl keeps as node annotations are part of what the query means (which
            # dataset runs it): where they sit and what they refer to is observed too
            notes = tuple((i, a, id(getattr(n, a))) for i, n in enumerate(ast.walk(s.query_ast)) for a in ("_func_adl_executor", "_eds_object") if hasattr(n, a))
            return (ast.dump(s.query_ast), s.item_type, tuple(lookup_query_metadata(s, k) for k in QKEYS), notes)

        def add(s, parent):
            streams.append([s, snap(s)])
            if parent is not None:
                has_children.add(parent)

        for typed in case["roots"]:
            add(DS(typed), None)

        def invariant(step, what):
            for idx, (s, sn) in enumerate(streams):
                now = snap(s)
                if now[0] != sn[0]:
                    return f"step {step} ({what}) changed the query of stream #{idx}: {_short(sn[0], now[0])}"
                if now[1] != sn[1]:
                    return f"step {step} ({what}) changed the item type of stream #{idx}: {sn[1]} -> {now[1]}"
                if now[2] != sn[2]:
                    return f"step {step} ({what}) changed the query metadata seen on stream #{idx}: {sn[2]} -> {now[2]}"
                if now[3] != sn[3]:
                    return f"step {step} ({what}) changed the executor / dataset annotations on the nodes of stream #{idx}: {[x[:2] for x in sn[3]]} -> {[x[:2] for x in now[3]]}"
            return None

        derivations = []  # (index of the derived stream, parent index, operator, form, pool key, lambda text)
        n_value = 0
        ops = []
        for op in case["ops"]:
            if op.get("on") == "roots":
                ops += [dict(op, on=i) for i in range(len(case["roots"]))]
            else:
                ops.append(op)
        for step, op in enumerate(ops):
            on = op["on"] % len(streams)
            s = streams[on][0]
            kind = op["op"]
            what = f"{kind} on #{on}"
            try:
                if kind in POOL:
                    lam = POOL[kind][op["f"] % len(POOL[kind])]
                    key = (kind, op["f"] % len(POOL[kind]))
                    what += f" {lam} [{op['form']}]"
                    if on in has_children:
                        feats["rederive"] = True
                    if op["form"] == "string":
                        n = getattr(s, kind)(lam)
                    elif op["form"] == "ast":
                        feats["shared-ast"] = True
                        n = getattr(s, kind)(shared[key])
                    else:
                        n = getattr(mod, f"f_{kind}_{key[1]}")(s)
                    derivations.append((len(streams), on, kind, op["form"], key, lam))
                    if "jets('x')" in ast.unparse(n.query_ast) or "'cb'" in ast.unparse(n.query_ast):
                        feats["fixup"] = True
                    if "MetaData" in ast.dump(n.query_ast) and "{}" in ast.unparse(n.query_ast):
                        feats["empty"] = True
                    add(n, on)
                elif kind == "MetaData":
                    if not op["d"]:
                        feats["empty"] = True
                    add(s.MetaData(dict(op["d"])), on)
                elif kind == "QMetaData":
                    add(s.QMetaData(dict(op["d"])), on)
                elif kind == "terminal":
                    mk = [lambda x: x.AsAwkwardArray(["c"]), lambda x: x.AsPandasDF("c"), lambda x: x.AsROOTTTree("f.root", "t", ["c"]),
                          lambda x: x.AsParquetFiles("f.pq", ["c"])][op["t"]]
                    add(mk(s), on)
                elif kind == "value_async":
                    feats["exec"] = True
                    box = []

                    async def exe(a, title=None):
                        box.append(a)
                        return a

                    got = run_coro(s.value_async(exe) if op["override"] else s.value_async())
                    for b in op["backend"]:
                        # a backend working on the AST it was handed, with library functions that return a new AST
                        if b == "remove_empty":
                            remove_empty_metadata(got)
                        else:
                            extract_metadata(got)
                elif kind == "value":
                    if n_value < 2:
                        n_value += 1
                        feats["exec"] = True
                        s.value()
            except Exception as e:
                if kind in POOL:
                    feats["failed-derive"] = True  # e.g. the lambda does not fit the item type: refused, and nothing may change
                    what += f" (raised {type(e).__name__})"
                else:
                    return r.fail(f"step {step} {what} raised {type(e).__name__}: {e}")
            err = invariant(step, what)
            if err:
                return r.fail(err)
            if not feats.get("user-ast-modified") and any(ast.dump(v) != shared_pristine[k] for k, v in shared.items()):
                feats["user-ast-modified"] = True  # not asserted by itself: it matters when a stream shares those nodes (invariant above)
        # a derivation depends on the parent stream and the lambda only: repeated now, after everything else that happened, it gives
        # the same query and item type as the first time (streams derived from a common parent are independent of each other)
        for idx, on, kind, form, key, lam in derivations:
            parent = streams[on][0]
            try:
                if form == "string":
                    again = getattr(parent, kind)(lam)
                elif form == "ast":
                    again = getattr(parent, kind)(shared[key])
                else:
                    again = getattr(mod, f"f_{kind}_{key[1]}")(parent)
            except Exception as e:
                return r.fail(f"the derivation {kind}({lam}) [{form}] on stream #{on} succeeded earlier in the history and now raises {type(e).__name__}: {e}")
            first = streams[idx][1]
            if ast.dump(again.query_ast) != first[0]:
                return r.fail(f"the derivation {kind}({lam}) [{form}] on stream #{on} gives another query when repeated after the rest of the history: {_short(first[0], ast.dump(again.query_ast))}")
            if not _same_type(again.item_type, first[1]):
                return r.fail(f"the derivation {kind}({lam}) [{form}] on stream #{on} gives item type {again.item_type} when repeated after the rest of the history, {first[1]} the first time")
        if derivations:
            feats["rederived-at-end"] = True
    finally:
        srcgen.unload(mod)
    for k, v in feats.items():
        if v:
            r.labels.append(k)
    r.labels.append(f"streams:{min(len(streams) // 5 * 5, 25)}+")
    r.nontrivial = (feats["exec"] or feats["rederive"]) and (feats["fixup"] or feats["empty"])
    return r


def _same_type(a, b):
    """equal types; the anonymous dataclass func_adl makes for a dictionary result is a new class every time: compared field by field"""
    import dataclasses
    import typing

    if a == b:
        return True
    if dataclasses.is_dataclass(a) and dataclasses.is_dataclass(b):
        fa, fb = dataclasses.fields(a), dataclasses.fields(b)
        return [f.name for f in fa] == [f.name for f in fb] and all(_same_type(x.type, y.type) for x, y in zip(fa, fb))
    oa, ob = typing.get_origin(a), typing.get_origin(b)
    if oa is not None and oa == ob:
        aa, ab = typing.get_args(a), typing.get_args(b)
        return len(aa) == len(ab) and all(_same_type(x, y) for x, y in zip(aa, ab))
    return False


def _short(a, b):
    i = 0
    while i < min(len(a), len(b)) and a[i] == b[i]:
        i += 1
    return f"...{a[max(0, i - 60):i + 80]}  ->  ...{b[max(0, i - 60):i + 80]}"


def selftest():
    compile(_module_text(POOL0), "<c11>", "exec")
    assert _uniq("lambda e: e.jets().Select(lambda j: j.pt())", "ab") == "lambda e_ab: e_ab.jets().Select(lambda j_ab: j_ab.pt())"
