"""C03 - source recovery returns the lambda that was actually passed.

case = {"text": module source, "supported": bool, "layout": label}
The module defines run(ds) which performs 1-5 operator calls with capture-free lambdas carrying unique markers.
"""
import ast

from hypothesis import strategies as st

from vf.common import srcgen
from vf.common.harness import Result

ID = "C03"
RULE = (
    "Generated module layouts: 1-5 operator calls (Select/Where/SelectMany on an untyped recording dataset, plus "
    "parse_as_ast(callable) directly), each with a capture-free lambda `lambda v: v * K + MARKER` (unique marker per lambda), "
    "varying: code before/after on the line, ';'-joined statements, several calls on one line (same/different method x "
    "same/different argument names), black-style wrapped chains, line breaks after '(' / before '.' / inside bracketed "
    "bodies / backslash continuations, end-of-line comments and string literals containing 'lambda', brackets and quotes, "
    "enclosing context (module level, def, nested def, method, one-line def, decorator argument, comprehension, conditional "
    "expression, one-line if), indentation depth and tabs, one-line defs passed by name, lambdas passed through a variable. "
    "Non-trivial = >=2 lambdas visible to the token scan (same line or bracketed expression), or a multi-line lambda, or a "
    "non-plain enclosing context. Distinct by module text."
)
ASSUMPTIONS = [
    "Behavioural identity is decided by compiling the recorded lambda and calling it and the real callable on the samples "
    "-3, 0, 1, 7 (unique markers make every neighbouring lambda differ on every sample).",
    "The documented-supported class (must be recovered without error) is: one lambda on its line; several calls on a line "
    "that differ in method name or in argument names; black-style chains with each .Op(lambda ...) on its own line; "
    "multi-line bodies inside brackets; comments/strings containing brackets or the word lambda; one-line defs passed by name. "
    "Every other layout may be refused with an exception but never recorded as a different lambda.",
    "Interactive sources (no file) are not modelled.",
]
ATHERIS_RUNS = 6000  # thorough tier only: coverage-guided supplement (vf/fuzz.py)
BUDGET = {"quick": (6, 800), "thorough": (16, 6000)}

OPS = ["Select", "Where", "SelectMany"]
ARGS = ["x", "y", "e", "jet", "a", "d", "lam"]
DSNAMES = ["ds", "ds", "d", "a", "b", "l", "m", "la", "data", "lambda_", "Select"]


class _G:
    """per-case generation state"""

    def __init__(self, draw):
        self.draw = draw
        self.n = 0

    def lam(self, op=None, arg=None, multiline=False):
        self.n += 1
        a = arg or self.draw(st.sampled_from(ARGS))
        k = self.draw(st.integers(2, 5))
        m = 1000 + self.n * 17
        sp = self.draw(st.sampled_from([" ", "  ", ""])) if not multiline else " "
        if multiline:
            body = self.draw(st.sampled_from([f"({a} * {k}\n            + {m})", f"(\n        {a} * {k} + {m}\n    )", f"[{a} * {k},\n {m}][0] + {m}" if op != "Where" else f"({a} * {k}\n + {m})"]))
        else:
            body = f"{a} * {k}{sp}+{sp}{m}"
        if op == "Where":
            body = f"({body}) > 0" if multiline else f"{body} > 0"
        return f"lambda {a}: {body}", a

    def op(self):
        return self.draw(st.sampled_from(OPS))

    def nested_pair(self, op, a):
        """two lambdas with the same argument, names and constants whose NESTED lambda (which uses the outer argument) differs by one operator"""
        self.n += 1
        m = 1000 + self.n * 17
        o1, o2 = self.draw(st.sampled_from([("+", "-"), ("*", "+"), ("-", "*")]))
        tail = " > 0" if op == "Where" else ""
        mk = lambda o: f"lambda {a}: (lambda q: q {o} {a})({m}){tail}"  # noqa: E731
        return mk(o1), mk(o2)

    def private_pair(self, op, a):
        """two lambdas that differ by one operator and mention a module variable spelled like a mangled class-private name (`_t__k`)"""
        self.n += 1
        k = self.draw(st.integers(2, 9))
        tail = " > 0" if op == "Where" else ""
        return f"lambda {a}: {a} * {k} + _t__k{tail}", f"lambda {a}: {a} * {k} - _t__k{tail}"

    def jump_pair(self, op, a):
        """two lambdas with the same names, constants and instructions up to WHERE the jumps go: (p and q) or r  /  p and (q or r)"""
        self.n += 1
        return f"lambda {a}: ({a} > 0 and {a} > 5) or {a} > -2", f"lambda {a}: {a} > 0 and ({a} > 5 or {a} > -2)"

    def private_pair2(self, op, a):
        """two lambdas that differ in one module variable; both are spelled like mangled class-private names (`_a__k`, `_b__k`)"""
        self.n += 1
        k = self.draw(st.integers(2, 9))
        tail = " > 0" if op == "Where" else ""
        return f"lambda {a}: {a} * {k} + _a__k{tail}", f"lambda {a}: {a} * {k} + _b__k{tail}"

    def cell_pair(self, op, a):
        """two lambdas with the same argument, names and constants; only in the first the nested lambda uses the outer argument"""
        self.n += 1
        m = 1000 + self.n * 17
        tail = " > 0" if op == "Where" else ""
        return f"lambda {a}: (lambda q: q * 2 + {a})({m}){tail}", f"lambda {a}: (lambda q: q * 2)({m} + {a}){tail}"

    def attr_pair(self, op, a):
        """two lambdas with the same argument, the same SET of names and constants, first mentioned in a different order"""
        self.n += 1
        m = 1000 + self.n * 17
        k = self.draw(st.integers(2, 9))
        tail = " > 0" if op == "Where" else ""
        return (f"lambda {a}: ({a}.real + {k}) // ({a}.imag + {m}){tail}", f"lambda {a}: ({a}.imag + {k}) // ({a}.real + {m}){tail}")

    def twin(self, op, lam_text, a):
        """a lambda with the same argument, names and constants as lam_text (`a * k + m`) but another meaning (`a * m + k`)"""
        import re

        mm = re.search(rf"{a} \* (\d+) *\+ *(\d+)", lam_text)
        if not mm:
            return None
        k, m = mm.group(1), mm.group(2)
        return f"lambda {a}: {a} * {m} + {k}" + (" > 0" if op == "Where" else "")


def _relayout(draw, line):
    """insert newlines (+ indentation, sometimes a trailing comment) at random token boundaries inside brackets"""
    import io
    import tokenize

    toks = list(tokenize.generate_tokens(io.StringIO(line + "\n").readline))
    out, depth, prev_end = [], 0, (1, 0)
    for t in toks:
        if t.type in (tokenize.NEWLINE, tokenize.NL, tokenize.ENDMARKER):
            continue
        gap = " " * (t.start[1] - prev_end[1]) if t.start[0] == prev_end[0] else ""
        if depth > 0 and out and draw(st.integers(0, 5)) == 0:
            c = draw(st.sampled_from(["", "", "  # lambda z: (z", "  # )"]))
            gap = c + "\n" + " " * draw(st.integers(0, 8))
        out.append(gap + t.string)
        if t.type == tokenize.OP and t.string in "([{":
            depth += 1
        elif t.type == tokenize.OP and t.string in ")]}":
            depth -= 1
        prev_end = t.end
    return "".join(out)


@st.composite
def _unit(draw):
    g = _G(draw)
    pick = draw(st.integers(0, 72))
    sup = True
    pre = ""
    label = ""
    if pick == 0:
        o = g.op()
        body = f"q = ds.{o}({g.lam(o)[0]})"
        label = "plain"
    elif pick == 1:
        o = g.op()
        body = f"a = 1; q = ds.{o}({g.lam(o)[0]}); b = [2, (3)]"
        label = "code-before-after"
    elif pick == 2:
        o1, o2 = draw(st.permutations(OPS))[:2]
        a = draw(st.sampled_from(ARGS))
        body = f"q = ds.{o1}({g.lam(o1, a)[0]}).{o2}({g.lam(o2, a)[0]})"
        label = "two-calls-one-line:different-method-same-arg"
    elif pick == 3:
        o = g.op()
        a1, a2 = draw(st.permutations(ARGS))[:2]
        body = f"q = ds.{o}({g.lam(o, a1)[0]}).{o}({g.lam(o, a2)[0]})"
        label = "two-calls-one-line:same-method-different-arg"
    elif pick == 4:
        o = g.op()
        a = draw(st.sampled_from(ARGS))
        body = f"q = ds.{o}({g.lam(o, a)[0]}).{o}({g.lam(o, a)[0]})"
        sup = False
        label = "two-calls-one-line:same-method-same-arg"
    elif pick == 5:
        n = draw(st.integers(2, 4))
        same = draw(st.booleans())
        o = g.op()
        a = draw(st.sampled_from(ARGS))
        lines = ["q = (", "    ds"]
        for _ in range(n):
            oo = o if same else g.op()
            lines.append(f"    .{oo}({g.lam(oo, a if same else None)[0]})")
        lines.append(")")
        body = "\n".join(lines)
        label = "black-style-chain" + (":same-method-same-arg" if same else "")
    elif pick == 6:
        o = g.op()
        body = f"q = ds.{o}({g.lam(o, multiline=True)[0]})"
        label = "multi-line-body"
    elif pick == 7:
        o = g.op()
        c = draw(st.sampled_from(["# lambda y: (y", "# ) ] } lambda", "# 'quote\" lambda x: x", "#lambda"]))
        body = f"q = ds.{o}({g.lam(o)[0]})  {c}"
        label = "comment-with-lambda-or-brackets"
    elif pick == 8:
        o = g.op()
        s = draw(st.sampled_from(["'lambda x: ('", '"lambda y: y)"', "'((['", "'#'", '"""lambda z: z"""', "'it\\'s lambda'"]))
        body = f"q = ds.MetaData({{'k': {s}}}).{o}({g.lam(o)[0]})"
        label = "string-with-lambda-or-brackets"
    elif pick == 9:
        o = g.op()
        body = f"q = ds.{o}(\n    {g.lam(o)[0]}\n)"
        label = "break-after-paren"
    elif pick == 10:
        o = g.op()
        body = f"q = ds \\\n    .{o}({g.lam(o)[0]})"
        label = "backslash-before-dot"
    elif pick == 11:
        o1, o2 = g.op(), g.op()
        body = f"def inner(d):\n    def inner2(d2):\n        return d2.{o2}({g.lam(o2)[0]})\n    return inner2(d.{o1}({g.lam(o1)[0]}))\nq = inner(ds)"
        label = "nested-def"
    elif pick == 12:
        o = g.op()
        body = f"class K:\n    def m(self, d):\n        return d.{o}({g.lam(o)[0]})\nq = K().m(ds)"
        label = "method-in-class"
    elif pick == 13:
        o = g.op()
        body = f"def f1(d): return d.{o}({g.lam(o)[0]})\nq = f1(ds)"
        sup = False  # a lambda inside a one-line def: not in the documented class; must be right or refused
        label = "lambda-inside-one-line-def"
    elif pick == 14:
        o = g.op()
        body = f"def deco(s):\n    def w(fn):\n        return fn\n    return w\n@deco(ds.{o}({g.lam(o)[0]}))\ndef h():\n    pass\nq = None"
        label = "decorator-argument"
    elif pick == 15:
        o = g.op()
        body = f"qs = [ds.{o}({g.lam(o)[0]}) for _ in range(2)]\nq = qs[0]"
        label = "comprehension"
    elif pick == 16:
        o1, o2 = g.op(), g.op()
        a = draw(st.sampled_from(ARGS))
        same = o1 == o2
        body = f"q = ds.{o1}({g.lam(o1, a)[0]}) if len(OUT) < 100 else ds.{o2}({g.lam(o2, a)[0]})"
        sup = not same
        label = "conditional-expression" + (":same-method-same-arg" if same else "")
    elif pick == 17:
        o = g.op()
        body = f"if len(OUT) < 100: q = ds.{o}({g.lam(o)[0]})"
        label = "one-line-if"
    elif pick == 18:
        o = g.op()
        ind = draw(st.sampled_from(["\t", "\t\t", "        ", "  "]))
        body = f"if True:\n{ind}if True:\n{ind}{ind}q = ds.{o}({g.lam(o)[0]})"
        label = "indentation-depth/tabs"
    elif pick == 19:
        o = g.op()
        g.n += 1
        a = draw(st.sampled_from(ARGS))
        m = 1000 + g.n * 17
        cmp_ = " > 0" if o == "Where" else ""
        doc = draw(st.sampled_from(["", '"doc lambda x: x"; ']))
        body = f"def f1({a}): {doc}return {a} * 3 + {m}{cmp_}\nq = ds.{o}(f1)"
        sup = doc == ""
        label = "one-line-def-by-name"
    elif pick == 20:
        o = g.op()
        body = f"f = {g.lam(o)[0]}\nq = ds.{o}(f)"
        sup = False
        label = "lambda-through-variable"
    elif pick == 21:
        o = g.op()
        a = draw(st.sampled_from(ARGS))
        other = draw(st.sampled_from(["list(map(lambda {a}: {a}, []))", "sorted([], key=lambda {a}: {a})", "(lambda {a}: {a})(1)"])).replace("{a}", a)
        first = draw(st.booleans())
        body = f"z = {other}; q = ds.{o}({g.lam(o, a)[0]})" if first else f"q = ds.{o}({g.lam(o, a)[0]}); z = {other}"
        sup = False
        label = "other-lambda-on-the-line"
    elif pick == 22:
        o = g.op()
        a = draw(st.sampled_from(ARGS))
        l1, l2 = g.lam(o, a)[0], g.lam(o, a)[0]
        body = f"q = [\n    ds.{o}({l1}),\n    ds.{o}({l2}),\n]"
        label = "same-call-on-consecutive-lines-of-one-bracket"
    elif pick == 23:
        o = g.op()
        g.n += 1
        a = draw(st.sampled_from(ARGS))
        m = 1000 + g.n * 17
        body = f"from func_adl.util_ast import parse_as_ast\nPARSED.append((parse_as_ast(lambda {a}: {a} * 2 + {m}), lambda v: v * 2 + {m}))\nq = None"
        label = "parse_as_ast-direct"
    elif pick == 24:
        o1, o2 = g.op(), g.op()
        body = f"q = ds.{o1}({g.lam(o1)[0]})\nq2 = q.{o2}(\n        {g.lam(o2, multiline=True)[0]},\n    )"
        label = "multi-line-body+trailing-comma"
    elif pick == 25:
        o = g.op()
        a = draw(st.sampled_from(ARGS))
        body = f"q = ds.{o}({g.lam(o, a)[0]})\nq = q.{o}({g.lam(o, a)[0]})"
        label = "same-call-on-adjacent-lines"
    elif pick == 26:
        o = g.op()
        body = f"q = ds.{o}(({g.lam(o)[0]}))"
        label = "parenthesised-lambda"
    elif pick == 28:
        o1, o2 = g.op(), g.op()
        a = draw(st.sampled_from(ARGS))
        a2 = a if draw(st.booleans()) else draw(st.sampled_from(ARGS))
        body = f"q = ds.{o1}({g.lam(o1, a)[0]}).{o2}(\n    {g.lam(o2, a2)[0]})"
        sup = False
        label = "second-lambda-on-continuation-line"
    elif pick == 29:
        o1, o2 = g.op(), g.op()
        a = draw(st.sampled_from(ARGS))
        c = draw(st.sampled_from(["", "    # comment lambda q: q\n", "\n"]))
        body = f"q1 = ds.{o1}({g.lam(o1, a)[0]})\nq = ds.{o2}(\n{c}    {g.lam(o2, a)[0]})"
        label = "lambda-on-own-line-after-similar-statement"
    elif pick == 30:
        o = g.op()
        body = f"sel = ds.{o}\nq = sel({g.lam(o)[0]})"
        sup = False
        label = "operator-through-alias"
    elif pick == 31:
        o = g.op()
        body = f"q = ds.{o}({g.lam(o)[0]}, known_types={{}})"
        sup = False
        label = "keyword-argument-after-lambda"
    elif pick == 32:
        o = g.op()
        a = draw(st.sampled_from(ARGS))
        g.n += 1
        m = 1000 + g.n * 17
        cmp_ = " > 0" if o == "Where" else ""
        body = f"q = ds.{o}(lambda {a}: (lambda {a}: {a} * 2)({a}) + {m}{cmp_})"
        sup = False
        label = "nested-lambda-same-arg-in-body"
    elif pick == 33:
        o1, o2 = g.op(), g.op()
        a = draw(st.sampled_from(ARGS))
        body = f"q1 = ds.{o1}({g.lam(o1, a)[0]}); q = ds.{o2}(\n    {g.lam(o2, a)[0]})"
        sup = False
        label = "statement-then-open-call-on-one-line"
    elif pick == 34:
        o = g.op()
        g.n += 1
        a = draw(st.sampled_from(ARGS))
        m = 1000 + g.n * 17
        cmp_ = " > 0" if o == "Where" else ""
        # a string INSIDE the lambda whose text has unbalanced brackets: plain strings, and f-strings whose literal pieces are
        # single bracket characters (python >= 3.12 tokenizes an f-string into several tokens)
        lit = draw(st.sampled_from(["f'{A})'", "f'[{A}, {A})'", "f'({A}'", "f'{A}[{A}'", "f'{{{A}'", "f'{A}}}'", 'f"){A}("', "'(('", "')]'", "'lambda q: ('"])).replace("{A}", "{" + a + "}")
        body = f"q = ds.{o}(lambda {a}: len({lit}) * 0 + {a} * 2 + {m}{cmp_})"
        if draw(st.booleans()):
            o2 = draw(st.sampled_from([x for x in OPS if x != o]))
            body += f".{o2}({g.lam(o2, draw(st.sampled_from([x for x in ARGS if x != a])))[0]})"  # a second call on the line, told apart by method and argument name
        label = "string-or-f-string-with-bracket-in-body"
    elif pick == 35:
        o = g.op()
        a = draw(st.sampled_from(ARGS))
        l1, l2 = g.lam(o, a)[0], g.lam(o, a)[0]
        body = f"q = ds.{o}({l1})  # first\n\n# ds.{o}(lambda {a}: {a})\nq = q.{o}({l2})"
        label = "commented-out-call-between"
    elif pick in (38, 39):
        o1, o2 = g.op(), g.op()
        a = draw(st.sampled_from(ARGS))
        g.n += 1
        m1 = 1000 + g.n * 17
        inner = draw(st.sampled_from([f"[{a}, (\n    lambda j: j)][0] * 2 + {m1}", f"{a} + (lambda j: 0)(\n    lambda j: j) + {m1}"]))
        if o1 == "Where":
            inner = f"({inner}) > 0"
        a2 = a if pick == 38 else draw(st.sampled_from(ARGS))
        body = f"q = ds.{o1}(lambda {a}: {inner}).{o2}({g.lam(o2, a2)[0]})"
        sup = False
        label = "continuation-line-starts-with-nested-lambda"
    elif pick in (48, 49):
        # the lambda is passed by keyword: the token in front of it is the parameter name, not the method name
        kwname = {"Select": "f", "SelectMany": "func", "Where": "filter"}
        o1, o2 = g.op(), g.op()
        a1 = draw(st.sampled_from(ARGS))
        a2 = a1 if draw(st.integers(0, 3)) == 0 else draw(st.sampled_from(ARGS))
        l1 = g.lam(o1, a1)[0]
        l2 = g.lam(o2, a2)[0]
        if a1 == a2 and draw(st.booleans()):
            l2 = g.twin(o2, l1, a1) or l2  # same names and constants, different function
        first = f"ds.{o1}({l1})" if pick == 48 else "ds"
        body = f"q = {first}.{o2}({kwname[o2]}={l2})"
        sup = False
        label = "lambda-passed-by-keyword" + (":after-another-call" if pick == 48 else "")
    elif pick in (50, 51):
        # the two arms of a conditional expression are lambdas (only one of them is the callable that is passed)
        o = g.op()
        a1 = draw(st.sampled_from(ARGS))
        a2 = a1 if draw(st.integers(0, 1)) == 0 else draw(st.sampled_from(ARGS))
        flag = draw(st.booleans())
        l1, l2 = g.lam(o, a1)[0], g.lam(o, a2)[0]
        c_ = draw(st.integers(0, 7)) if a1 == a2 else 7
        if c_ <= 1:
            l2 = g.twin(o, l1, a1) or l2
        elif c_ <= 6:
            l1, l2 = [g.nested_pair, g.private_pair, g.cell_pair, g.jump_pair, g.private_pair2][c_ - 2](o, a1)
            if draw(st.booleans()):
                l1, l2 = l2, l1
        body = f"FLAG = {flag}\nq = ds.{o}(({l1}) if FLAG else ({l2}))" if pick == 50 else f"FLAG = {flag}\nq = ds.{o}({l1} if FLAG else {l2})"
        if "_t__k" in body:
            body = f"_t__k = {1000 + g.n * 17}\n" + body
        if "_a__k" in body:
            body = f"_a__k = {1000 + g.n * 17}\n_b__k = {2000 + g.n * 17}\n" + body
        sup = False
        label = "lambda-in-arm-of-conditional-expression"
    elif pick in (52, 53):
        # the lambda goes through a helper call on the same line as another operator call
        o1, o2 = g.op(), g.op()
        a1 = draw(st.sampled_from(ARGS))
        a2 = a1 if draw(st.integers(0, 3)) == 0 else draw(st.sampled_from(ARGS))
        l1, l2 = g.lam(o1, a1)[0], g.lam(o2, a2)[0]
        if a1 == a2 and draw(st.booleans()):
            l2 = g.twin(o2, l1, a1) or l2
        body = "def ident(z):\n    return z\n" + (f"q = ds.{o1}(ident({l1})).{o2}({l2})" if pick == 52 else f"q = ds.{o1}({l1}).{o2}(ident({l2}))")
        sup = False
        label = "lambda-through-helper-call-on-the-line"
    elif pick in (57, 58):
        # mis-attributable lambdas that differ only inside a nested lambda which uses the outer argument
        o = g.op()
        a = draw(st.sampled_from(ARGS))
        l1, l2 = g.nested_pair(o, a) if draw(st.booleans()) else g.attr_pair(o, a)
        if draw(st.booleans()):
            l1, l2 = l2, l1
        flag = draw(st.booleans())
        if pick == 57:
            body = f"FLAG = {flag}\nq = ds.{o}(({l1}) if FLAG else ({l2}))"
        else:
            body = f"def ident(z):\n    return z\nq = ds.{o}(ident({l1})).{o}({l2})"
        sup = False
        label = "mis-attributable-lambdas-differing-in-a-nested-lambda-or-in-name-order"
    elif pick in (54, 55, 56):
        # mis-attributable lambdas that use a variable of the enclosing function (their code depends on where it is compiled)
        o = g.op()
        a = draw(st.sampled_from(ARGS))
        g.n += 1
        m = 1000 + g.n * 17
        cmp_ = " > 0" if o == "Where" else ""
        l1 = f"lambda {a}: {a} * cut + {m}{cmp_}"
        l2 = draw(st.sampled_from([f"lambda {a}: {a} * {m} + cut{cmp_}", f"lambda {a}: {a} * cut - {m}{cmp_}", f"lambda {a}: ({a} * cut + {m}) * 2{cmp_}"]))
        flag = draw(st.booleans())
        kwname = {"Select": "f", "SelectMany": "func", "Where": "filter"}[o]
        call = {54: f"ds.{o}(({l1}) if FLAG else ({l2}))", 55: f"ds.{o}({l1}).{o}({kwname}={l2})", 56: f"ds.{o}(ident({l1})).{o}({l2})"}[pick]
        body = f"FLAG = {flag}\ndef ident(z):\n    return z\ndef outer(ds):\n    cut = {draw(st.integers(2, 5))}\n    return {call}\nq = outer(ds)"
        sup = False
        label = "mis-attributable-lambdas-with-enclosing-function-variable"
    elif pick in (59, 60):
        # a one-line def RE-DEFINED later in the file under the same name (same module, same qualified name), each
        # version passed by name; optionally the first one is used again afterwards through a saved reference
        o1, o2 = g.op(), g.op()
        a = draw(st.sampled_from(ARGS))
        g.n += 2
        m1, m2 = 1000 + g.n * 17, 1000 + g.n * 17 + 5
        k1, k2 = draw(st.sampled_from([(3, 3), (3, 5), (2, 7)]))
        c1, c2 = (" > 0" if o1 == "Where" else ""), (" > 0" if o2 == "Where" else "")
        keep = draw(st.booleans())
        body = (f"def f1({a}): return {a} * {k1} + {m1}{c1}\nq0 = ds.{o1}(f1)\n" + ("old = f1\n" if keep else "")
                + f"def f1({a}): return {a} * {k2} + {m2}{c2}\nq = ds.{o2}(f1)" + (f"\nq2 = ds.{o1}(old)" if keep else ""))
        if pick == 60:  # the same inside a function (qualified name outer.<locals>.f1)
            body = "def outer(ds):\n" + "\n".join("    " + ln for ln in body.split("\n")) + "\n    return q\nq = outer(ds)"
        label = "one-line-def-redefined-under-the-same-name"
    elif pick in (61, 62):
        # one-line defs of the same name in the two arms of an if/else inside a builder that is called several times
        o = g.op()
        a = draw(st.sampled_from(ARGS))
        g.n += 2
        m1, m2 = 1000 + g.n * 17, 1000 + g.n * 17 + 5
        c = " > 0" if o == "Where" else ""
        flags = draw(st.lists(st.booleans(), min_size=2, max_size=4))
        if len(set(flags)) == 1:
            flags.append(not flags[0])
        calls = "; ".join(f"q{i} = build(ds, {fl})" for i, fl in enumerate(flags))
        ind = "    " if pick == 61 else "\t"
        body = (f"def build(d, tight):\n{ind}if tight:\n{ind}{ind}def sel({a}): return {a} * 3 + {m1}{c}\n{ind}else:\n{ind}{ind}def sel({a}): return {a} * 5 + {m2}{c}\n"
                f"{ind}return d.{o}(sel)\n{calls}\nq = q0")
        label = "one-line-def-same-name-in-both-arms-of-if"
    elif pick in (63, 64):
        # a triple-quoted string literal that continues on an indented line, inside a single-return def (nested in a function /
        # a method) or inside a lambda in an indented context: the text of the literal must survive any re-indentation
        o = g.op()
        a = draw(st.sampled_from(ARGS))
        g.n += 1
        m = 1000 + g.n * 17
        c = " > 0" if o == "Where" else ""
        ind = draw(st.sampled_from(["    ", "        ", "\t"]))
        lit = '"""p\n' + ind + ind + 'q"""'
        if pick == 63:
            body = f"def outer(ds):\n{ind}def f1({a}): return {a} * 3 + {m} + len({lit}){c}\n{ind}return ds.{o}(f1)\nq = outer(ds)"
        else:
            body = f"def outer(ds):\n{ind}return ds.{o}(lambda {a}: {a} * 3 + {m} + len({lit}){c})\nq = outer(ds)"
        sup = False
        label = "multi-line-string-literal-in-indented-def-or-lambda"
    elif pick in (65, 66, 67):
        # the lambda calls a function of an imported module (module-level `import math`, `from math import floor`, or an import
        # inside the enclosing function): the most common shape of a real query lambda
        o = g.op()
        a = draw(st.sampled_from(ARGS))
        g.n += 1
        m = 1000 + g.n * 17
        k = draw(st.integers(2, 5))
        c = " > 0" if o == "Where" else ""
        how = draw(st.sampled_from(["import math", "import math as np", "from math import floor", "local"]))
        fn = {"import math": "math.floor", "import math as np": "np.floor", "from math import floor": "floor", "local": "math.floor"}[how]
        lam = f"lambda {a}: {fn}({a} * {k}) + {m}{c}"
        tail = ""
        if pick >= 66:
            o2 = draw(st.sampled_from([x for x in OPS if x != o]) if pick == 66 else st.sampled_from(OPS))
            a2 = draw(st.sampled_from([x for x in ARGS if x != a]))
            g.n += 1
            tail = f".{o2}(lambda {a2}: {fn}({a2} * {k}) - {1000 + g.n * 17}{' > 0' if o2 == 'Where' else ''})"
            if pick == 67:
                tail = "\\\n        " + tail  # black-style: the second call on its own line
        if how == "local":
            body = f"def outer(ds):\n    import math\n    return ds.{o}({lam}){tail}\nq = outer(ds)"
        else:
            body = f"{how}\nq = ds.{o}({lam}){tail}"
        label = "lambda-calling-a-function-of-an-imported-module"
    elif pick in (68, 69):
        # functions passed by name that are NOT a single return of an expression over the parameter: a constant assignment before
        # the return (may be refused, must not be recorded without the assignment), and a return of a literal (a genuine one-line function)
        o = g.op()
        a = draw(st.sampled_from(ARGS))
        g.n += 1
        m = 1000 + g.n * 17
        c = " > 0" if o == "Where" else ""
        if pick == 68:
            stmt = draw(st.sampled_from(["k_ = 5", "k_: int = 5", "k_ = 5; k_ += 1"]))
            glob = draw(st.sampled_from(["", "k_ = 100\n"]))  # a module global of the same name makes a silent mis-recording possible
            body = f"{glob}def f1({a}): {stmt}; return {a} * k_ + {m}{c}\nq = ds.{o}(f1)"
            sup = False
            label = "def-with-constant-assignment-before-return"
        else:
            lit = draw(st.sampled_from([str(m), "True", f"{m}.5", "'s'"])) if o != "Where" else "True"
            body = f"def f1({a}): return {lit}\nq = ds.{o}(f1)"
            label = "one-line-def-returning-a-literal"
    elif pick == 72:
        # class-private names: inside a class python compiles `x.__p` as `x._Class__p` (the class name may contain `__` itself)
        o = g.op()
        a = draw(st.sampled_from(ARGS))
        g.n += 1
        m = 1000 + g.n * 17
        c = " > 0" if o == "Where" else ""
        cls = draw(st.sampled_from(["K", "My__K", "_K", "K__", "__K"]))
        body = f"class {cls}:\n    def m(self, d):\n        return d.{o}(lambda {a}: {a} * 3 + {m} + ({a}.__p if {a} == 'never' else 0){c})\nq = {cls}().m(ds)"
        label = "class-private-attribute-name"
    elif pick in (70, 71):
        # callables whose source is not what they do: a decorated function (the wrapper changes the result) and a bound method,
        # passed by name - refusing is fine, recording the underlying function's text is not
        o = g.op()
        a = draw(st.sampled_from(ARGS))
        g.n += 1
        m = 1000 + g.n * 17
        c = " > 0" if o == "Where" else ""
        if pick == 70 and draw(st.booleans()):
            # a decorator written as a class: its instances are callable objects that carry __wrapped__
            body = (f"import functools\nclass Deco:\n    def __init__(self, fn):\n        functools.update_wrapper(self, fn)\n        self.fn = fn\n"
                    f"    def __call__(self, *a, **k):\n        return self.fn(*a, **k) - 2000\n"
                    f"@Deco\ndef f1({a}): return {a} * 3 + {m}{c}\nq = ds.{o}(f1)")
        elif pick == 70:
            body = (f"import functools\ndef deco(fn):\n    @functools.wraps(fn)\n    def w(*a, **k):\n        return fn(*a, **k) - 2000\n    return w\n"
                    f"@deco\ndef f1({a}): return {a} * 3 + {m}{c}\nq = ds.{o}(f1)")
        else:
            body = f"class K:\n    k_ = 2000\n    def m(self, {a}): return {a} * 3 + {m} - self.k_{c}\nq = ds.{o}(K().m)"
        sup = False
        label = "decorated-function-or-bound-method-passed-by-name"
    elif pick >= 42 and pick <= 58:
        # free-form layout: a chain of 2-3 calls, then line breaks (and comments) at random places where python allows them
        ncalls = draw(st.integers(2, 3))
        chain = "ds"
        for _ in range(ncalls):
            o = g.op()
            chain += f".{o}({g.lam(o, draw(st.sampled_from(ARGS[:3])))[0]})"
        body = _relayout(draw, f"q = ({chain})")
        sup = False
        label = "random-line-breaks-inside-brackets"
    elif pick in (40, 41):
        o1 = g.op()
        o2 = o1 if pick == 40 else draw(st.sampled_from([o for o in OPS if o != o1]))
        a = draw(st.sampled_from(ARGS))
        body = f"def both(p, q):\n    return q\nq = both(ds.{o1}({g.lam(o1, a)[0]}), ds.{o2}({g.lam(o2, a)[0]}))"
        sup = pick == 41
        label = "two-calls-as-arguments-of-one-call" + (":same-method-same-arg" if pick == 40 else ":different-method")
    elif pick == 36:
        o1, o2 = g.op(), g.op()
        a = draw(st.sampled_from(ARGS))
        body = f"q = ds.{o1}({g.lam(o1, a, multiline=True)[0]}).{o2}({g.lam(o2, a)[0]})"
        sup = False
        label = "call-after-multi-line-lambda-on-its-last-line"
    else:
        o1, o2, o3 = g.op(), g.op(), g.op()
        a1, a2, a3 = draw(st.permutations(ARGS))[:3]
        body = f"q = ds.{o1}({g.lam(o1, a1)[0]}).{o2}({g.lam(o2, a2)[0]}).{o3}({g.lam(o3, a3)[0]})"
        label = "three-calls-one-line:different-args"
    wrap = draw(st.integers(0, 3))
    if wrap == 1 and "\nq = " not in body and not body.startswith(("def ", "class ", "from ")):
        body = "def outer(ds):\n" + "\n".join("    " + ln for ln in body.split("\n")) + "\n    return None\nouter(ds)"
        label += "+in-def"
    # the variable holding the dataset: any identifier (including ones that look like pieces of the word 'lambda' or like an operator)
    dsname = draw(st.sampled_from(DSNAMES))
    if dsname != "ds":
        import re

        if not re.search(rf"\b{dsname}\b", body) and "def outer(ds)" not in body:
            body = re.sub(r"\bds\b", dsname, body)
            pre = f"{dsname} = ds\n" + pre
            label += "+dataset-variable-name"
    pad = "\n" * draw(st.integers(0, 3))
    # the statement may start on the very FIRST line of its file (a script or notebook cell that starts with the query: the
    # harness' own definitions then live in another module)
    bare = draw(st.integers(0, 4)) == 0
    if bare and draw(st.booleans()):
        pad = ""
    return {"text": pad + pre + body + "\n", "supported": sup, "layout": label, "bare": bare}


def strategy(tier):
    return _unit()


PROLOGUE = '''
from func_adl import EventDataset
OUT = []
PARSED = []
class RecDS(EventDataset):
    async def execute_result_async(self, a, title=None):
        return a
    def _rec(self, name, f):
        entry = {"op": name, "f": f, "res": None, "exc": None}
        OUT.append(entry)
        try:
            entry["res"] = getattr(EventDataset, name)(self, f)
        except Exception as e:
            entry["exc"] = e
            raise
        return entry["res"]
    def Select(self, f):
        return self._rec("Select", f)
    def Where(self, filter):
        return self._rec("Where", filter)
    def SelectMany(self, func):
        return self._rec("SelectMany", func)
ds = RecDS()
'''

SAMPLES = [-3, 0, 1, 7]


def _behaviour(fn):
    out = []
    for v in SAMPLES:
        try:
            out.append(("ok", fn(v)))
        except Exception as e:
            out.append(("exc", type(e).__name__))
    return out


def _compile_lambda(lam: ast.Lambda):
    e = ast.Expression(body=lam)
    ast.fix_missing_locations(e)
    import math

    # module names stay symbolic in the recorded lambda (they are not captured values): the ones the layouts import are in scope
    return eval(compile(e, "<recorded>", "eval"), {"math": math, "np": math, "floor": math.floor})


def check(case) -> Result:
    r = Result(sample={"layout": case["layout"], "supported": case["supported"], "text": case["text"]}, key=case["text"])
    r.labels.append("layout:" + case["layout"].split("+")[0].split(":")[0])
    r.labels.append("supported" if case["supported"] else "may-refuse")
    text = PROLOGUE + case["text"]
    pro = None
    try:
        if case.get("bare"):
            r.labels.append("file-holds-only-the-statement" + (":from-line-1" if not case["text"].startswith("\n") else ""))
            pro = srcgen.load(PROLOGUE)
            mod, err = srcgen.load_catching(case["text"], {k: v for k, v in pro.__dict__.items() if not k.startswith("__")})
        else:
            mod, err = srcgen.load_catching(text)
    except SyntaxError as e:
        raise AssertionError(f"harness: generated module does not compile: {e}\n{case['text']}")
    finally:
        if pro is not None:
            srcgen.unload(pro)
    try:
        out = mod.__dict__.get("OUT", [])
        n_lambdas = case["text"].count("lambda ")
        multi = any("\n" in seg for seg in case["text"].split("lambda ")[1:2]) and "multi-line" in case["layout"]
        r.nontrivial = n_lambdas >= 2 or "multi-line" in case["layout"] or any(k in case["layout"] for k in ("def", "class", "decorator", "comprehension", "conditional", "if", "chain"))
        refused = 0
        for ent in out:
            f = ent["f"]
            if ent["exc"] is not None:
                refused += 1
                continue
            q = ent["res"].query_ast
            lam = q.args[1]
            want = _behaviour(f)
            try:
                got = _behaviour(_compile_lambda(lam))
            except Exception as e:
                return r.fail(f"recorded lambda cannot be compiled ({type(e).__name__}: {e}): {ast.dump(lam)[:200]}\n{case['text']}")
            if got != want:
                return r.fail(f"{ent['op']} recorded a different lambda: recorded `{ast.unparse(lam)}` behaves {got}, the callable passed behaves {want}; layout {case['layout']}:\n{case['text']}")
        for lam, ref in mod.__dict__.get("PARSED", []):
            if _behaviour(_compile_lambda(lam)) != _behaviour(ref):
                return r.fail(f"parse_as_ast returned a different lambda `{ast.unparse(lam)}`:\n{case['text']}")
        if err is not None or refused:
            r.labels.append("outcome:refused")
            if case["supported"]:
                e = err or next(x["exc"] for x in out if x["exc"] is not None)
                return r.fail(f"documented-supported layout ({case['layout']}) was refused: {type(e).__name__}: {str(e)[:200]}\n{case['text']}")
        else:
            r.labels.append("outcome:identical")
            if not out and not mod.__dict__.get("PARSED"):
                raise AssertionError(f"harness: no operator call was recorded:\n{case['text']}")
        return r
    finally:
        if mod is not None:
            srcgen.unload(mod)


def selftest():
    f = _compile_lambda(ast.parse("lambda x: x * 2 + 5", mode="eval").body)
    assert _behaviour(f) == _behaviour(lambda x: x * 2 + 5) != _behaviour(lambda x: x * 2 + 6)
