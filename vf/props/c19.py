"""C19 - aggregate shortcuts lower to equivalent folds.

case = {"src": <python expression text>, "data": {"s0": [...], "s1": [...], "n0": int}, "folds": [[ints]...]}
"""
from __future__ import annotations

import ast
import copy
import itertools

from hypothesis import strategies as st

from vf.common.harness import Result
from vf.sem import pyeval

ID = "C19"
RULE = (
    "Typed expression grammar (int / seq-of-int / bool) rendered as source text: the five shortcut names as calls "
    "with 0-3 positional arguments, as methods (x.Sum()), as attribute and bare-name references, one-argument calls of 30 "
    "look-alike names (pieces of the shortcut names, other case, longer names), nested in each "
    "other's argument and inside Select/Where lambdas; integer sequences incl. empty and negative. "
    "Non-trivial = at least one 1-argument shortcut call (a fold is produced) AND (a shortcut nested inside "
    "another shortcut's argument, or inside a lambda, or a must-stay form present). Distinct by source text + data."
)
ASSUMPTIONS = [
    "The fold's lambda text is not pinned by the property: each produced Aggregate(seq, init, f) is checked "
    "extensionally (init, f closed; value on generated sequences equals len/sum/max(0,..)/min(0,..)).",
    "A keyword or starred argument makes a call one with another argument count: it must stay as it is (its arguments are still visited).",
    "Python's own compile/eval is the evaluator.",
]
BUDGET = {"quick": (4, 1500), "thorough": (16, 12000)}
EXHAUSTIVE_NOTE = "name(5) x arity(0..3) x 14 syntactic positions (incl. the callee of a call) x 3 sibling shortcuts, fully enumerated"

NAMES = ["len", "Count", "Sum", "Max", "Min"]
# one-argument functions whose names merely look like a shortcut (pieces, other case, longer): they must stay as they are
LOOKALIKE = ["e", "n", "t", "l", "C", "Co", "unt", "le", "en", "Su", "um", "Ma", "ax", "Mi", "S", "M", "length", "count", "sum", "max", "min",
             "Len", "SUM", "Sums", "Counts", "lenCount", "Count2", "_Sum", "Min_", "xaM"]


def _spec(name, s):
    if name in ("len", "Count"):
        return len(s)
    if name == "Sum":
        return sum(s)
    if name == "Max":
        return max([0] + list(s))
    return min([0] + list(s))


def _mkfn(name):
    def f(*a):
        if len(a) == 1:
            return _spec(name, list(a[0]))
        return 1000 * len(a) + len(name)

    f.__name__ = name
    return f


class _O:
    """object with attributes named like the shortcuts (non-call attribute references)."""

    len = 11
    Count = 12
    Sum = 13
    Max = 14
    Min = 15


class SeqM(pyeval.Seq):
    """Seq whose *methods* named like the shortcuts return distinguishable values (must-stay forms)."""

    def Sum(self, *a):
        return 100 + len(self) + len(a)

    def Max(self, *a):
        return 200 + len(self) + len(a)

    def Min(self, *a):
        return 300 + len(self) + len(a)

    def Count(self, *a):
        return 400 + len(self) + len(a)

    def len(self, *a):
        return 500 + len(self) + len(a)

    def Select(self, f):
        return SeqM([f(x) for x in self])

    def Where(self, f):
        return SeqM([x for x in self if f(x)])


def _env(data):
    env = {n: _mkfn(n) for n in NAMES}
    for i, n in enumerate(LOOKALIKE):
        env[n] = (lambda i: lambda s_: 7000 + 10 * i + len(list(s_)))(i)
    env["keep"] = lambda f, v: v
    env["kw"] = lambda v, w=0: v
    env["o"] = _O()
    env["hold"] = lambda n, s: _Hold(s)
    env["Select"] = lambda s, f: SeqM([f(x) for x in s])
    env["Where"] = lambda s, f: SeqM([x for x in s if f(x)])
    for k, v in data.items():
        env[k] = SeqM(v) if isinstance(v, list) else v
    return env


# ------------------------------------------------------------------------------------------------
# generator


class _Hold:
    def __init__(self, seq):
        self.seq = seq


def _paren_s(x):
    return x if x[0].isalpha() and "(" not in x else f"({x})"


@st.composite
def _expr(draw, ty, depth, ivars):
    """ty: 'I' int, 'S' seq of int, 'B' bool. ivars: int variable names in scope."""
    leaf = depth <= 0 or draw(st.integers(0, 9)) < 2
    if ty == "S":
        k = draw(st.integers(0, 1 if leaf else 7))
        if k == 7 and draw(st.booleans()):
            # the sequence is an ATTRIBUTE of an object built from other values (which may contain shortcuts themselves)
            return f"hold({draw(_expr('I', depth - 1, ivars))}, {draw(_expr('S', depth - 1, ivars))}).seq"
        if k >= 6 and ivars:
            # the sequence mentions a variable of an enclosing lambda (names v / w / acc: the folds' own parameter names must not
            # capture them)
            q_ = draw(st.sampled_from(["q", "x"]))
            return f"Select({draw(st.sampled_from(['s0', 's1']))}, lambda {q_}: {q_} - {draw(st.sampled_from(ivars))})"
        if k >= 6:
            k = 0
        if k == 0:
            return draw(st.sampled_from(["s0", "s1"]))
        if k == 1:
            return "[" + ", ".join(str(draw(st.integers(-3, 9))) for _ in range(draw(st.integers(0, 3)))) + "]"
        v = draw(st.sampled_from(["v", "w", "acc"]))
        src = draw(_expr("S", depth - 1, ivars))
        if src.startswith("[") and k in (3, 5):
            k -= 1
        if k in (2, 3):
            body = draw(_expr("I", depth - 1, ivars + [v]))
            return f"Select({src}, lambda {v}: {body})" if k == 2 else f"({src}).Select(lambda {v}: {body})"
        body = draw(_expr("B", depth - 1, ivars + [v]))
        return f"Where({src}, lambda {v}: {body})" if k == 4 else f"({src}).Where(lambda {v}: {body})"
    if ty == "B":
        a = draw(_expr("I", depth - 1, ivars))
        b = draw(_expr("I", depth - 1, ivars))
        return f"({a} {draw(st.sampled_from(['>', '<', '==', '>=']))} {b})"
    # int
    k = draw(st.integers(0, 2 if leaf else 19))
    if k in (18, 19):  # shortcuts inside the CALLEE of a call
        name = draw(st.sampled_from(NAMES))
        arg = draw(_expr("S", depth - 1, ivars))
        return draw(st.sampled_from([f"(lambda q: {name}(q))({arg})", f"[lambda q: {name}(q) + 1, lambda q: 0][0]({arg})", f"keep(0, lambda q: q)({name}({arg}))"]))
    if k in (16, 17):  # a one-argument call of a function whose name only resembles a shortcut
        return f"{draw(st.sampled_from(LOOKALIKE))}({draw(_expr('S', depth - 1, ivars))})"
    if k == 12:
        return f"kw(w={draw(_expr('I', depth - 1, ivars))}, v={draw(_expr('I', depth - 1, ivars))})"
    if k == 13:
        return f"({draw(_expr('I', depth - 1, ivars))}, {draw(_expr('I', depth - 1, ivars))})[{draw(st.integers(0, 1))}]"
    if k == 14:
        return f"{{'a': {draw(_expr('I', depth - 1, ivars))}, 'b': {draw(_expr('I', depth - 1, ivars))}}}['{draw(st.sampled_from('ab'))}']"
    if k == 15:
        return f"[{draw(_expr('I', depth - 1, ivars))}, *{draw(_expr('S', depth - 1, ivars))}][0]"
    if k == 0:
        return str(draw(st.integers(-5, 9)))
    if k == 1:
        return draw(st.sampled_from(ivars + ["n0"]))
    if k == 2:
        return "o." + draw(st.sampled_from(NAMES))
    if k in (3, 4, 5, 6):  # 1-argument shortcut call
        return f"{draw(st.sampled_from(NAMES))}({draw(_expr('S', depth - 1, ivars))})"
    if k == 7 and draw(st.integers(0, 2)) == 0:
        # other argument counts, spelled with a keyword or a starred argument next to / instead of the one positional argument: the
        # call stays as it is (shortcuts inside its arguments are still lowered)
        name = draw(st.sampled_from(NAMES))
        seq = draw(_expr("S", depth - 1, ivars))
        return draw(st.sampled_from([f"{name}({seq}, start={draw(_expr('I', depth - 2, ivars))})", f"{name}(*{_paren_s(seq)})", f"{name}({seq}, *{_paren_s(seq)})"]))
    if k == 7:  # other argument counts
        name = draw(st.sampled_from(NAMES))
        n = draw(st.sampled_from([0, 2, 3]))
        args = [draw(_expr("S", depth - 1, ivars))] if n else []
        args += [draw(_expr("I", depth - 2, ivars)) for _ in range(max(0, n - 1))]
        return f"{name}({', '.join(args)})"
    if k == 8:  # method form
        name = draw(st.sampled_from(NAMES))
        extra = [draw(_expr("I", depth - 2, ivars))] if draw(st.booleans()) and draw(st.booleans()) else []
        recv = draw(_expr('S', depth - 1, ivars))
        if recv.startswith("["):
            recv = "s1"
        return f"({recv}).{name}({', '.join(extra)})"
    if k == 10 and draw(st.booleans()):
        # a fold the user wrote out (or an earlier pass produced): an ordinary call - shortcuts in its sequence, in its seed and
        # inside its accumulator lambda are lowered like anywhere else
        b_ = draw(st.sampled_from(["v", "w", "b_"]))
        return (f"Aggregate({draw(_expr('S', depth - 1, ivars))}, {draw(_expr('I', depth - 1, ivars))}, "
                f"lambda a_, {b_}: a_ + {draw(_expr('I', depth - 1, ivars + [b_]))})")
    if k == 11 and draw(st.booleans()):
        # a shortcut as the DEFAULT VALUE of a lambda parameter (positional or keyword-only): lowered like anywhere else
        name = draw(st.sampled_from(NAMES))
        seq = draw(_expr("S", depth - 1, ivars))
        star = draw(st.sampled_from(["", "*, "]))
        return f"(lambda q_, {star}n_={name}({seq}): n_ + q_)({draw(_expr('I', depth - 1, ivars))})"
    if k == 9:  # bare reference
        return f"keep({draw(st.sampled_from(NAMES))}, {draw(_expr('I', depth - 1, ivars))})"
    if k == 10:
        return f"({draw(_expr('I', depth - 1, ivars))} {draw(st.sampled_from(['+', '-', '*']))} {draw(_expr('I', depth - 1, ivars))})"
    return f"({draw(_expr('I', depth - 1, ivars))} if {draw(_expr('B', depth - 1, ivars))} else {draw(_expr('I', depth - 1, ivars))})"


_ints = st.lists(st.integers(-6, 9), max_size=5)


@st.composite
def _case(draw, maxdepth):
    ty = draw(st.sampled_from(["I", "I", "I", "S"]))
    src = draw(_expr(ty, draw(st.integers(1, maxdepth)), []))
    data = {"s0": draw(_ints), "s1": draw(_ints), "n0": draw(st.integers(-3, 5))}
    folds = draw(st.lists(_ints, min_size=1, max_size=3))
    return {"src": src, "data": data, "folds": folds}


def strategy(tier):
    return _case(4 if tier == "quick" else 5)


def exhaustive(tier):
    data = {"s0": [3, -2, 5], "s1": [], "n0": 2}
    folds = [[], [-4, -1], [2, 7, 1]]
    positions = [
        "{X}",
        "({X} + 1)",
        "Sum(Select(s0, lambda v: {X}))",
        "len(Where(s0, lambda v: {X} > v))",
        "Select(s0, lambda v: {X})",
        "(s0).Select(lambda w: {X}).Max()",
        "keep(Min, {X})",
        "Count([{X}, 1])",
        "({X} if {X} > 0 else o.Sum)",
        "kw(w=1, v={X})",
        "{'a': {X}}['a']",
        "[*s1, {X}][0]",
        "(lambda z: {X})(1)",
        "[lambda z: {X}][0](1)",
    ]
    argsets = {0: "", 1: "{A}", 2: "{A}, n0", 3: "{A}, n0, 1"}
    inner = ["s0", "Select(s1, lambda v: Sum(s0))", "[Max(s0), len(s1)]"]
    for name, ar, pos, a in itertools.product(NAMES, argsets, positions, inner):
        x = f"{name}({argsets[ar].replace('{A}', a)})"
        yield {"src": pos.replace("{X}", x), "data": data, "folds": folds}


# ------------------------------------------------------------------------------------------------
# reference transform and oracle

_PH = "__FOLD__"


def _reference(node):
    """Pure, bottom-up: name(arg) with exactly one positional argument -> Aggregate(ref(arg), __FOLD__name)."""

    class R(ast.NodeTransformer):
        def visit_Call(self, n):
            self.generic_visit(n)
            if isinstance(n.func, ast.Name) and n.func.id in NAMES and len(n.args) == 1 and not n.keywords and not isinstance(n.args[0], ast.Starred):
                return ast.Call(
                    func=ast.Name(id="Aggregate", ctx=ast.Load()),
                    args=[n.args[0], ast.Name(id=_PH + n.func.id, ctx=ast.Load())],
                    keywords=[],
                )
            return n

    return R().visit(copy.deepcopy(node))


def _match(ref, got, folds_out, path="root"):
    """Structural equality modulo the (init, lambda) of each expected fold. Returns error text or None."""
    if isinstance(ref, ast.Call) and isinstance(ref.func, ast.Name) and ref.func.id == "Aggregate" and len(ref.args) == 2 \
            and isinstance(ref.args[1], ast.Name) and ref.args[1].id.startswith(_PH):
        if not (isinstance(got, ast.Call) and isinstance(got.func, ast.Name) and got.func.id == "Aggregate"
                and len(got.args) == 3 and not got.keywords):
            return f"{path}: expected an Aggregate(seq, init, fold) call, got {ast.dump(got)[:120]}"
        folds_out.append((ref.args[1].id[len(_PH):], got.args[1], got.args[2]))
        return _match(ref.args[0], got.args[0], folds_out, path + ".seq")
    if type(ref) is not type(got):
        return f"{path}: node changed from {type(ref).__name__} to {type(got).__name__}"
    if isinstance(ref, ast.AST):
        for f in ref._fields:
            a, b = getattr(ref, f, None), getattr(got, f, None)
            e = _match(a, b, folds_out, f"{path}.{f}")
            if e:
                return e
        return None
    if isinstance(ref, list):
        if len(ref) != len(got):
            return f"{path}: list length {len(ref)} -> {len(got)}"
        for i, (a, b) in enumerate(zip(ref, got)):
            e = _match(a, b, folds_out, f"{path}[{i}]")
            if e:
                return e
        return None
    if ref != got or type(ref) is not type(got):
        return f"{path}: value {ref!r} -> {got!r}"
    return None


def check(case) -> Result:
    from func_adl.ast.aggregate_shortcuts import aggregate_node_transformer

    r = Result(sample={"src": case["src"], "data": case["data"]}, key=case["src"] + repr(case["data"]))
    tree = ast.parse(case["src"], mode="eval").body
    ref = _reference(tree)
    n_fold = sum(1 for n in ast.walk(ref) if isinstance(n, ast.Name) and n.id.startswith(_PH))

    # labels
    calls = [n for n in ast.walk(tree) if isinstance(n, ast.Call)]
    short1 = [c for c in calls if isinstance(c.func, ast.Name) and c.func.id in NAMES and len(c.args) == 1]
    other_arity = [c for c in calls if isinstance(c.func, ast.Name) and c.func.id in NAMES and len(c.args) != 1]
    meth = [c for c in calls if isinstance(c.func, ast.Attribute) and c.func.attr in NAMES]
    bare = [n for n in ast.walk(tree) if isinstance(n, ast.Name) and n.id in NAMES]
    n_bare = len(bare) - len(short1) - len(other_arity)
    attr_ref = [n for n in ast.walk(tree) if isinstance(n, ast.Attribute) and n.attr in NAMES]
    nested = any(
        any(isinstance(m, ast.Call) and isinstance(m.func, ast.Name) and m.func.id in NAMES and m is not c for m in ast.walk(c))
        for c in short1
    )
    in_lambda = any(
        any(isinstance(m, ast.Call) and isinstance(m.func, ast.Name) and m.func.id in NAMES and len(m.args) == 1 for m in ast.walk(lam))
        for lam in ast.walk(tree) if isinstance(lam, ast.Lambda)
    )
    for c in short1:
        r.labels.append("fold:" + c.func.id)
    if other_arity:
        r.labels.append("must-stay:arity")
    if any(isinstance(c.func, ast.Name) and c.func.id in LOOKALIKE for c in calls):
        r.labels.append("must-stay:look-alike-name")
    if meth:
        r.labels.append("must-stay:method")
    if n_bare > 0:
        r.labels.append("must-stay:bare-name")
    if len(attr_ref) > len(meth):
        r.labels.append("must-stay:attribute")
    if nested:
        r.labels.append("nested-in-argument")
    if in_lambda:
        r.labels.append("inside-lambda")
    r.nontrivial = bool(short1) and (nested or in_lambda or bool(other_arity) or bool(meth) or n_bare > 0)

    env = _env(case["data"])
    try:
        expect = pyeval.materialise(pyeval.evaluate(tree, env))
    except Exception:
        expect = None
        r.ref_error = True

    work = copy.deepcopy(tree)
    try:
        got = aggregate_node_transformer().visit(work)
    except Exception as e:
        return r.fail(f"aggregate_node_transformer raised {type(e).__name__}: {e} on {case['src']}")

    folds = []
    err = _match(ref, got, folds)
    if err:
        return r.fail(f"structure: {err}; input {case['src']}; output {ast.unparse(ast.fix_missing_locations(got)) if isinstance(got, ast.AST) else got}")
    if len(folds) != n_fold:
        return r.fail(f"expected {n_fold} folds, found {len(folds)}")

    # every fold, extensionally
    for name, init, lam in folds:
        if pyeval.free_names(init) or pyeval.free_names(lam):
            return r.fail(f"fold for {name} is not closed: {ast.unparse(init)}, {ast.unparse(lam)}")
        for s in case["folds"] + [[]]:
            try:
                v = pyeval.evaluate(
                    ast.Call(func=ast.Name(id="Aggregate", ctx=ast.Load()), args=[ast.Name(id="s", ctx=ast.Load()), init, lam], keywords=[]),
                    {"s": list(s)},
                )
            except Exception as e:
                return r.fail(f"fold for {name} raised {type(e).__name__} on {s}")
            w = _spec(name, s)
            if v != w or type(v) is not type(w):
                return r.fail(f"fold for {name} on {s}: got {v!r}, want {w!r} ({ast.unparse(lam)}, init {ast.unparse(init)})")

    if expect is not None:
        try:
            val = pyeval.materialise(pyeval.evaluate(got, env))
        except Exception as e:
            return r.fail(f"lowered expression raised {type(e).__name__}: {e}; input {case['src']}")
        if val != expect:
            return r.fail(f"value changed: {expect} -> {val}; input {case['src']}")
    return r


def selftest():
    # the reference transform reproduces the outputs pinned by the repository's own tests, modulo fold text
    t = ast.parse("Sum(Select(s0, lambda v: len(s1)))", mode="eval").body
    ref = _reference(t)
    assert ast.unparse(ref) == "Aggregate(Select(s0, lambda v: Aggregate(s1, __FOLD__len)), __FOLD__Sum)", ast.unparse(ref)
    env = _env({"s0": [1, 2], "s1": [5], "n0": 0})
    assert pyeval.evaluate(ast.parse("Max(s1) + Min(s0) + Sum(s0, 1)", mode="eval").body, env) == 5 + 0 + 2003
    assert pyeval.evaluate(ast.parse("(s0).Sum()", mode="eval").body, env) == 102
