"""C08 - type following yields the declared types.

case = {"model": {cls: [[method, retIR|null], ...]}, "stages": [[op, param, exprIR], ...]}
type IR:  ["int"] ["float"] ["bool"] ["str"] ["any"] ["tv", "T"] ["it", X] ["c", cls, [args]] ["rec", [[k, X]..]]
expr IR:  ["var", n] ["call", objIR, meth] ["sel", srcIR, p, bodyIR] ["whr", srcIR, p, condIR] ["many", srcIR, p, bodyIR]
          ["first", srcIR] ["count", srcIR] ["len", srcIR] ["idx", srcIR] ["cmp", op, a, b] ["bool", op, a, b] ["num", op, a, b]
          ["const", text, typeIR] ["dict", [[k, e]..]] ["fld", objIR, key, how]
"""
import ast
import dataclasses
from typing import Any, Generic, Iterable, Optional, TypeVar  # noqa: F401

from hypothesis import strategies as st

from vf.common.harness import Result

ID = "C08"
RULE = (
    "Class models generated per case over a fixed skeleton (plain classes Evt/Jet/Trk, Generic[T] Box, Generic[T,U] Pair, "
    "generic subclass SubBox(Box[T]), concrete subclass IntBox(Box[int]), custom iterables MyIt(Iterable[T]), SubIt(MyIt[T]), "
    "TrkIt(MyIt[Trk]), subclasses whose parameter list differs from what the base uses: Tag(Box[K], Generic[K,V]), "
    "Tag2(Box[V], Generic[K,V]), Swap(Pair[U,T], Generic[T,U]), HalfPair(Pair[T,int]), It2(Iterable[V], Generic[K,V]), "
    "TagInts(Tag[int,V]), Mix(PlainB, Generic[T]) whose first base is a plain class; dataclass Info with fields and methods, a registered collection class adding Top/N/Rest): every class gets 2-4 methods whose "
    "return annotation is drawn from a type grammar (scalars, classes, generic instantiations, own type variables, "
    "iterables of these, or no annotation). Expressions: method chains, Select/SelectMany/Where/First/Count/len/[0] on "
    "iterables, comparisons, and/or (also over operands that are not bool), + - * / // % over int / float / bool operands (bool counts as int: True + True == 2), dict literals and dataclass fields by attribute and key, depth <=4; 1-3 stream "
    "stages. Expected type computed by the generator's own substitution of type variables along declared bases. "
    "Non-trivial = expected type is not Any and (>=2 typed steps or a generic/inheritance edge crossed). Distinct by model + query."
)
ASSUMPTIONS = [
    "Types are compared with == on typing objects; a nested Where/Select over any iterable (custom or not) yields Iterable[elem].",
    "Methods without return annotation give Any, and anything computed from Any gives Any (comparisons/and/or still bool).",
    "typing.List annotations, tuple element types and abs() are not in the statement and are not generated.",
]
BUDGET = {"quick": (6, 500), "thorough": (16, 6000)}

# skeleton: class -> (type parameters, base type IR or None)
SKEL = {
    "Trk": ([], None),
    "Jet": ([], None),
    "Evt": ([], None),
    "Box": (["T"], None),
    "Pair": (["T", "U"], None),
    "SubBox": (["T"], ["c", "Box", [["tv", "T"]]]),
    "IntBox": ([], ["c", "Box", [["int"]]]),
    "MyIt": (["T"], ["it", ["tv", "T"]]),
    "SubIt": (["T"], ["c", "MyIt", [["tv", "T"]]]),
    "TrkIt": ([], ["c", "MyIt", [["c", "Trk", []]]]),
    # subclasses whose own parameter list differs from what the base uses (arity and order)
    "Tag": (["K", "V"], ["c", "Box", [["tv", "K"]]]),
    "Tag2": (["K", "V"], ["c", "Box", [["tv", "V"]]]),
    "Swap": (["T", "U"], ["c", "Pair", [["tv", "U"], ["tv", "T"]]]),
    "HalfPair": (["T"], ["c", "Pair", [["tv", "T"], ["int"]]]),
    "It2": (["K", "V"], ["it", ["tv", "V"]]),
    "TagInts": (["V"], ["c", "Tag", [["int"], ["tv", "V"]]]),
    # a generic class whose FIRST base is a plain class
    "PlainB": ([], None),
    "Mix": (["T"], ["c", "PlainB", []]),
    # several base classes: a plain class listed BEFORE the base that carries the type information (EXTRA_FIRST), Generic[..] listed first
    "MixIt": ([], ["it", ["c", "Jet", []]]),
    "MixBox": (["T"], ["c", "Box", [["tv", "T"]]]),
    "GenLast": (["T"], ["c", "Box", [["tv", "T"]]]),
    "MixIntBox": ([], ["c", "Box", [["int"]]]),  # class MixIntBox(PlainB, Box[int]): a method of Box is found by way of the SECOND base
    "Coll": (["T"], None),  # registered collection class (operators for every iterable)
    "Info": ([], None),  # dataclass
}
ORDER = ["Trk", "Jet", "Evt", "Box", "Pair", "SubBox", "IntBox", "MyIt", "SubIt", "TrkIt", "Tag", "Tag2", "Swap", "HalfPair", "It2", "TagInts", "PlainB", "Mix", "MixIt", "MixBox", "GenLast", "MixIntBox"]
EXTRA_FIRST = {"MixIt": "PlainB", "MixBox": "PlainB", "MixIntBox": "PlainB"}  # class MixIt(PlainB, Iterable[Jet]); class MixBox(PlainB, Box[T])
GENERIC_FIRST = {"GenLast"}  # class GenLast(Generic[T], Box[T])
RENAMES = {"Box": ["Container", "Collection", "Holder"], "Pair": ["Mapping", "Both"], "MyIt": ["Sequence", "Collection2", "Reversible"], "Jet": ["Hashable", "Sized"]}
GEN1 = ["Box", "SubBox", "MyIt", "SubIt", "HalfPair", "TagInts", "MixBox", "GenLast"]
GEN2 = ["Pair", "Pair", "Tag", "Tag2", "Swap", "It2"]
INFO_FIELDS = [["x", ["int"]], ["w", ["float"]], ["trk", ["c", "Trk", []]], ["trks", ["it", ["c", "Trk", []]]]]
COLL_METHODS = [["Top", ["tv", "T"]], ["N", ["int"]], ["Rest", ["it", ["tv", "T"]]]]


def subst(t, env):
    if t is None:
        return ["any"]
    k = t[0]
    if k == "tv":
        return env.get(t[1], ["any"])
    if k == "it":
        return ["it", subst(t[1], env)]
    if k == "opt":
        return ["opt", subst(t[1], env)]
    if k == "c":
        return ["c", t[1], [subst(a, env) for a in t[2]]]
    if k == "rec":
        return ["rec", [[kk, subst(v, env)] for kk, v in t[1]]]
    return t


def lookup_method(model, t, meth):
    """declared return type of t.meth(), type variables substituted along the declared bases; None if no such method"""
    if t[0] == "opt":
        return lookup_method(model, t[1], meth)  # Optional[X]: the methods are those of X
    if t[0] != "c":
        return None
    cls, args = t[1], t[2]
    params, base = SKEL[cls]
    env = dict(zip(params, args))
    for name, ret in model.get(cls, []):
        if name == meth:
            return ["any"] if any(v not in env for v in _tvs(ret)) else subst(ret, env)
    if cls in EXTRA_FIRST:
        r = lookup_method(model, ["c", EXTRA_FIRST[cls], []], meth)
        if r is not None:
            return r
    if base is not None and base[0] == "c":
        return lookup_method(model, subst(base, env), meth)
    return None


def all_methods(model, t):
    out = []
    if t[0] == "opt":
        return all_methods(model, t[1])
    if t[0] != "c":
        return out
    cls, args = t[1], t[2]
    params, base = SKEL[cls]
    env = dict(zip(params, args))
    seen = set()
    for name, ret in model.get(cls, []):
        seen.add(name)
        # a type variable that nothing binds: nothing is known about the result
        out.append((name, ["any"] if any(v not in env for v in _tvs(ret)) else subst(ret, env)))
    if cls in EXTRA_FIRST:
        for name, ret in all_methods(model, ["c", EXTRA_FIRST[cls], []]):
            if name not in seen:
                seen.add(name)
                out.append((name, ret))
    if base is not None and base[0] == "c":
        for name, ret in all_methods(model, subst(base, env)):
            if name not in seen:
                out.append((name, ret))
    return out


def _tvs(t):
    """names of the type variables in a type IR"""
    if not isinstance(t, list) or not t:
        return []
    if t[0] == "tv":
        return [t[1]]
    if t[0] in ("it", "opt"):
        return _tvs(t[1])
    if t[0] == "c":
        return [v for x in t[2] for v in _tvs(x)]
    return []


def elem_of(t):
    """element type if t is iterable (Iterable[X] or a class that inherits from one), else None"""
    if t[0] == "it":
        return t[1]
    if t[0] == "c":
        params, base = SKEL[t[1]]
        if base is None:
            return None
        return elem_of(subst(base, dict(zip(params, t[2]))))
    return None


# ------------------------------------------------------------------------------------------------
# generators

_SCAL = [["int"], ["float"], ["bool"], ["str"]]


@st.composite
def _type(draw, params, depth, top=True):
    c = draw(st.integers(0, 11))
    if depth <= 0 or c <= 2:
        return draw(st.sampled_from(_SCAL + [["c", "Trk", []], ["c", "Jet", []]]))
    if c == 3 and params:
        return ["tv", draw(st.sampled_from(params))]
    if c == 4:
        return ["it", draw(_type(params, depth - 1, False))]
    if c == 5:
        return ["c", draw(st.sampled_from(GEN1)), [draw(_type(params, depth - 1, False))]]
    if c == 6:
        return ["c", draw(st.sampled_from(GEN2)), [draw(_type(params, depth - 1, False)), draw(_type(params, depth - 1, False))]]
    if c == 7:
        return ["c", draw(st.sampled_from(["IntBox", "TrkIt", "Info", "MixIt", "MixIntBox"])), []]
    if c == 8 and params:
        return ["it", ["tv", draw(st.sampled_from(params))]]
    if c == 9 and top:
        return None  # no return annotation
    return draw(st.sampled_from([["c", "Trk", []], ["c", "Jet", []], ["it", ["c", "Jet", []]], ["it", ["c", "Trk", []]], ["it", ["float"]]]))


@st.composite
def _model(draw):
    m = {}
    for cls in ORDER:
        params = SKEL[cls][0]
        n = draw(st.integers(2, 4))
        names = ["m0", "m1", "m2", "m3"][:n]
        if SKEL[cls][1] is not None and cls != "MyIt":
            names = [x + "s" for x in names[: draw(st.integers(0, 2))]]  # own methods next to the inherited ones
        m[cls] = [[nm, draw(_type(params, 2))] for nm in names]
    # make sure the interesting edges exist
    m["Evt"].append(["jets", ["it", ["c", "Jet", []]]])
    m[draw(st.sampled_from(["Evt", "Jet", "Trk"]))].append(["info", ["c", "Info", []]])
    m["Jet"].append(["trks", draw(st.sampled_from([["it", ["c", "Trk", []]], ["c", "MyIt", [["c", "Trk", []]]], ["c", "TrkIt", []], ["c", "SubIt", [["c", "Trk", []]]]]))])
    m["Box"].append(["get", ["tv", "T"]])
    m["MyIt"].append(["Last", ["tv", "T"]])
    m["Pair"].append(["second", ["tv", "U"]])
    m["Pair"].append(["first", ["tv", "T"]])
    # collections whose element type is unknown: a method without return annotation used inside Select, an Iterable[Any]
    m[draw(st.sampled_from(["Jet", "Trk"]))].append(["raw", None])
    m[draw(st.sampled_from(["Evt", "Jet"]))].append(["anys", draw(st.sampled_from([["it", ["any"]], ["c", "MyIt", [["any"]]]]))])
    m["It2"].append(["Key", ["tv", "K"]])
    m["Mix"].append(["got", ["tv", "T"]])
    # a method-level type variable on a class that is not generic: the return type cannot be worked out (Any), the method is there
    m[draw(st.sampled_from(["Trk", "Jet"]))].append(["unb", draw(st.sampled_from([["tv", "U"], ["it", ["tv", "U"]]]))])
    # the dataclass has methods next to its fields
    m["Info"] = [["score", draw(st.sampled_from(_SCAL + [["c", "Trk", []], ["it", ["c", "Trk", []]]]))], ["raw", None]]
    # the sources of the mixed-arity subclasses must be reachable from the event
    holder = draw(st.sampled_from(["Evt", "Jet"]))
    a, b = draw(st.sampled_from(_SCAL + [["c", "Trk", []]])), draw(st.sampled_from(_SCAL + [["c", "Jet", []]]))
    m[holder].append(["mixed", draw(st.sampled_from([["c", "Tag", [a, b]], ["c", "Tag2", [a, b]], ["c", "Swap", [a, b]], ["c", "HalfPair", [a]], ["c", "It2", [a, b]], ["c", "TagInts", [b]], ["c", "Mix", [a]], ["c", "Mix", [b]],
                                                          ["c", "MixIt", []], ["c", "MixBox", [a]], ["c", "GenLast", [b]], ["c", "MixIt", []]]))])
    # an object that may be missing (Optional[X]: its methods are those of X), a concrete class whose generic base is its second base
    m["Evt"].append(["lead", ["opt", ["c", "Jet", []]]])
    m["Evt"].append(["mib", ["c", "MixIntBox", []]])
    m["Evt"].append(["obox", ["opt", ["c", "Box", [draw(st.sampled_from([["int"], ["c", "Trk", []]]))]]]])  # Optional[Box[int]]: get() -> int
    # a two-parameter generic with two DIFFERENT arguments is reachable from the event (which argument a method's variable takes)
    m["Evt"].append(["pair", ["c", draw(st.sampled_from(["Pair", "Pair", "Swap", "Tag", "Tag2"])), [["c", "Trk", []], draw(st.sampled_from([["int"], ["float"], ["c", "Jet", []]]))]]])
    return m


def _vars_of(env, pred):
    return [(n, t) for n, t in env if pred(t)]


@st.composite
def _expr(draw, model, env, depth):
    """returns (exprIR, typeIR) - free type"""
    if depth <= 0:
        n, t = draw(st.sampled_from(env))
        return ["var", n], t
    c = draw(st.integers(0, 13))
    if depth >= 1 and draw(st.integers(0, 7)) == 0:
        c = 14  # a called lambda (below)
    if c <= 5:  # method call chain step
        obj, t = draw(_expr(model, env, depth - 1))
        ms = all_methods(model, t)
        if elem_of(t) is not None:
            ms = ms + [(n, subst(r, {"T": elem_of(t)})) for n, r in COLL_METHODS]
        if ms:
            name, ret = draw(st.sampled_from(ms))
            return ["call", obj, name], ret
        return obj, t
    if c <= 8:  # collection operators
        src, t = draw(_expr(model, env, depth - 1))
        el = elem_of(t)
        if el is None:
            return src, t
        k = draw(st.integers(0, 8))
        p = draw(st.sampled_from(["a", "b", "e", "j"]))
        e2 = [(n, tt) for n, tt in env if n != p] + [(p, el)]
        if k == 0:
            body, bt = draw(_expr(model, e2, depth - 1))
            return ["sel", src, p, body], ["it", bt]
        if k == 1:
            cond = draw(_bool(model, e2, depth - 1))
            return ["whr", src, p, cond], ["it", el]
        if k == 2:
            body, bt = draw(_expr(model, e2, depth - 1))
            be = elem_of(bt)
            if be is None:
                return ["sel", src, p, body], ["it", bt]
            return ["many", src, p, body], ["it", be]
        if k == 3:
            return ["first", src], el
        if k == 4:
            return ["count", src], ["int"]
        if k == 5:
            return ["len", src], ["int"]
        # the index written as a constant, a negative number or a computed expression: always one item
        return ["idx", src, draw(st.sampled_from(["0", "0", "1", "-1", "2 - 1", "-(1)", "len(%s) - 1"]))], el
    if c == 9:
        return draw(_bool(model, env, depth - 1)), ["bool"]
    if c == 10:
        return draw(_num(model, env, depth - 1))
    if c == 11:  # dict literal + field access
        n = draw(st.integers(1, 3))
        items = []
        for i in range(n):
            e, t = draw(_expr(model, env, depth - 1))
            items.append((f"k{i}", e, t))
        i = draw(st.integers(0, n - 1))
        if draw(st.integers(0, 5)) == 0:
            # the key that is read is written twice: the LAST definition counts (read by attribute; such a literal is not a record)
            pre, _ = draw(_expr(model, env, 0))
            return ["fld", ["dict", [[items[i][0], pre]] + [[k, e] for k, e, _ in items]], items[i][0], "attr"], items[i][2]
        if draw(st.integers(0, 3)) == 0:
            # an entry without a constant key (a ** mapping, a computed key) IN FRONT of the field that is read by attribute
            pre, _ = draw(_expr(model, env, 0))
            return ["fld", ["dictx", draw(st.sampled_from(["**", "computed"])), pre, [[k, e] for k, e, _ in items]], items[i][0], "attr"], items[i][2]
        return ["fld", ["dict", [[k, e] for k, e, _ in items]], items[i][0], draw(st.sampled_from(["attr", "key"]))], items[i][2]
    if c == 12:  # dataclass / record field access
        recs = [(n, t) for n, t in env if t[0] == "rec" or t == ["c", "Info", []]]
        if recs and draw(st.booleans()):
            n, t = draw(st.sampled_from(recs))
            obj = ["var", n]
        else:
            obj, t = draw(_expr(model, env, depth - 1))
        fields = INFO_FIELDS if t == ["c", "Info", []] else (t[1] if t[0] == "rec" else None)
        if fields:
            k, ft = draw(st.sampled_from(fields))
            return ["fld", obj, k, draw(st.sampled_from(["attr", "key"]))], ft
        return obj, t
    if c == 13 and depth >= 2:
        # a variable used AGAIN after a nested operator whose lambda re-uses its name (scope bookkeeping must not leak)
        cands = [(n, t, m, r) for n, t in env for m, r in all_methods(model, t) if elem_of(r) is not None]
        if cands:
            n, t, m, r = draw(st.sampled_from(cands))
            e2 = [(nn, tt) for nn, tt in env if nn != n] + [(n, elem_of(r))]
            body, bt = draw(_expr(model, e2, depth - 2))
            first = ["count", ["sel", ["call", ["var", n], m], n, body]]
            later_m = [(mm, rr) for mm, rr in all_methods(model, t) if rr != ["any"]]
            if later_m:
                mm, rr = draw(st.sampled_from(later_m))
                return ["fld", ["dict", [["k0", first], ["k1", ["call", ["var", n], mm]]]], "k1", draw(st.sampled_from(["attr", "key"]))], rr
    if c == 14 and depth >= 1:
        # a lambda called where it is written (the keyword-only parameter keeps it from being substituted): its parameter has the
        # type of the argument, the call the type of the body
        arg, at = draw(_expr(model, env, depth - 1))
        if at[0] != "rec":
            p = draw(st.sampled_from(["a", "b", "e", "w"]))
            env_p = [(nn, tt) for nn, tt in env if nn != p] + [(p, at)]
            src, st_ = draw(_expr(model, env_p, depth - 1))
            if elem_of(st_) is not None and draw(st.booleans()):
                # ... and its parameter is used one lambda further down (inside the lambda of a collection operator in its body)
                q = draw(st.sampled_from([x for x in ["j", "t", "q"] if x != p]))
                ms = [(m, r) for m, r in all_methods(model, at) if r is not None and r[0] != "rec"]
                if ms and draw(st.booleans()):
                    m, r = draw(st.sampled_from(ms))
                    return ["calledl", p, arg, ["sel", src, q, ["call", ["var", p], m]]], ["it", r]
                return ["calledl", p, arg, ["sel", src, q, ["var", p]]], ["it", at]
            body, bt = draw(_expr(model, env_p, depth - 1))
            if bt[0] != "rec":
                return ["calledl", p, arg, body], bt
    n, t = draw(st.sampled_from(env))
    return ["var", n], t


@st.composite
def _num(draw, model, env, depth):
    """(IR, type) of an arithmetic expression over int/float-typed sub-expressions"""
    def operand():
        if depth > 0 and draw(st.booleans()):
            e, t = draw(_expr(model, env, depth - 1))
            if t in (["int"], ["float"], ["any"], ["bool"]):
                return e, t
        if draw(st.integers(0, 5)) == 0:
            # a bool operand (python: True + True == 2): comparisons, and/or results, True / False
            if depth > 0 and draw(st.booleans()):
                return draw(_bool(model, env, depth - 1)), ["bool"]
            return ["const", draw(st.sampled_from(["True", "False"])), ["bool"]], ["bool"]
        v = draw(st.sampled_from([("1", ["int"]), ("2", ["int"]), ("1.5", ["float"]), ("0.25", ["float"])]))
        return ["const", v[0], v[1]], v[1]

    if draw(st.integers(0, 9)) == 0:
        # not arithmetic on numbers: two strings joined give a string
        def text():
            if depth > 0 and draw(st.booleans()):
                e, t = draw(_expr(model, env, depth - 1))
                if t == ["str"]:
                    return e, t
            return ["const", draw(st.sampled_from(["'a'", "'b c'", "''"])), ["str"]], ["str"]
        a, ta = text()
        b, tb = text()
        return ["num", "+", a, b], ["str"]
    a, ta = operand()
    if draw(st.integers(0, 7)) == 0:
        # a sign in front of one operand: -x / +x of an int is an int, of a float a float, of a bool an int (python: -True == -1)
        return ["neg", draw(st.sampled_from(["-", "+", "-"])), a], (["int"] if ta == ["bool"] else ta)
    b, tb = operand()
    if ta == ["bool"] and tb != ["bool"] and draw(st.booleans()):
        b, tb = draw(_bool(model, env, max(depth - 1, 0))), ["bool"]  # both operands bool
    op = draw(st.sampled_from(["+", "-", "*", "/", "+", "-", "*", "/", "//", "%"]))
    if ta == ["any"] or tb == ["any"]:
        t = ["any"]
    elif ta == ["float"] or tb == ["float"] or op == "/":
        t = ["float"]
    else:
        t = ["int"]
    return ["num", op, a, b], t


@st.composite
def _bool(draw, model, env, depth):
    c = draw(st.integers(0, 5))
    if depth > 0 and draw(st.integers(0, 6)) == 0:
        # `not x` is a truth value whatever x is (a bool expression, a number, an object)
        if draw(st.booleans()):
            return ["not", draw(_bool(model, env, depth - 1))]
        return ["not", draw(_expr(model, env, depth - 1))[0] if draw(st.booleans()) else draw(_num(model, env, depth - 1))[0]]
    if c <= 2 or depth <= 0:
        a, _ = draw(_num(model, env, depth - 1)) if draw(st.booleans()) else draw(_expr(model, env, max(depth - 1, 0)))
        b, _ = draw(_num(model, env, 0))
        return ["cmp", draw(st.sampled_from([">", "<", "==", "!=", ">=", "<="])), a, b]
    if c <= 4:
        if draw(st.integers(0, 3)) == 0:
            # and / or over operands that are not bool themselves (two ints, two floats, whatever): the statement says and/or give bool
            a, ta = draw(_num(model, env, depth - 1))
            b, tb = draw(_num(model, env, depth - 1)) if draw(st.booleans()) else draw(_expr(model, env, max(depth - 1, 0)))
            return ["bool", draw(st.sampled_from(["and", "or"])), a, b]
        return ["bool", draw(st.sampled_from(["and", "or"])), draw(_bool(model, env, depth - 1)), draw(_bool(model, env, depth - 1))]
    e, t = draw(_expr(model, env, depth - 1))
    if t == ["bool"]:
        return e
    return ["cmp", ">", ["const", "1", ["int"]], ["const", "0", ["int"]]]


@st.composite
def _case(draw, maxdepth):
    model = draw(_model())
    stages = []
    cur = ["c", "Evt", []]
    for _ in range(draw(st.integers(1, 3))):
        p = draw(st.sampled_from(["e", "a", "x"]))
        env = [(p, cur)]
        k = draw(st.integers(0, 9))
        if k <= 1:
            # a dictionary result: its fields are read (by attribute and by key) in the next stage
            items = []
            for i in range(draw(st.integers(1, 3))):
                e, t = draw(_expr(model, env, draw(st.integers(1, maxdepth - 1))))
                if t[0] == "rec":
                    t, e = ["int"], ["const", "1", ["int"]]
                items.append([f"k{i}", e, t])
            stages.append(["Select", p, ["dict", [[kk, e] for kk, e, _ in items]]])
            cur = ["rec", [[kk, t] for kk, _, t in items]]
        elif k <= 5:
            e, t = draw(_expr(model, env, draw(st.integers(1, maxdepth))))
            stages.append(["Select", p, e])
            cur = t
        elif k <= 7:
            stages.append(["Where", p, draw(_bool(model, env, draw(st.integers(1, maxdepth - 1))))])
        elif k == 8:
            e, t = draw(_expr(model, env, draw(st.integers(1, maxdepth))))
            if t == ["bool"]:
                stages.append(["Select", p, e])
                cur = t
            elif (elem_of(t) is not None or cur == ["c", "Evt", []]) and draw(st.integers(0, 2)) > 0:
                if elem_of(t) is None:
                    e, t = ["call", ["var", p], "jets"], ["it", ["c", "Jet", []]]
                # the same one level down: a Where on a collection INSIDE the lambda gets a non-boolean filter
                q = draw(st.sampled_from(["a", "b", "j"]))
                env2 = [(n, tt) for n, tt in env if n != q] + [(q, elem_of(t))]
                fe, ft = draw(_expr(model, env2, draw(st.integers(1, 2))))
                if ft == ["bool"]:
                    fe, ft = ["num", "+", fe, ["const", "1", ["int"]]], ["int"]
                tail = draw(st.sampled_from(["count", "first", "none"]))
                body = ["whr", e, q, fe]
                stages.append(["SelectBad", p, body if tail == "none" else [tail, body], ft])
                break
            else:
                stages.append(["WhereBad", p, e, t])  # non-boolean filter: must raise ValueError
                break
        else:
            e, t = draw(_expr(model, env, draw(st.integers(1, maxdepth))))
            el = elem_of(t)
            if el is None:
                stages.append(["Select", p, e])
                cur = t
            else:
                stages.append(["SelectMany", p, e])
                cur = el
    # class names are the user's: a model class may well be called like something in `typing`
    rename = {}
    if draw(st.integers(0, 3)) == 0:
        for cls, pool in RENAMES.items():
            if draw(st.booleans()):
                rename[cls] = draw(st.sampled_from(pool))
    # some return annotations are only PARTIALLY quoted: Iterable['Trk'] / Box['Jet'] (a forward reference inside a real generic)
    partial = sorted(f"{c}.{n}" for c, ms in model.items() for n, r in ms
                     if r is not None and r[0] in ("it", "c") and (r[0] == "it" or r[2]) and draw(st.integers(0, 2)) == 0)
    return {"model": model, "stages": stages, "rename": rename, "partial": partial}


def strategy(tier):
    return _case(3 if tier == "quick" else 4)


# ------------------------------------------------------------------------------------------------
# rendering + model construction


def render(e):
    k = e[0]
    if k == "var":
        return e[1]
    if k == "const":
        return e[1]
    if k == "call":
        return f"{_pr(render(e[1]))}.{e[2]}()"
    if k in ("sel", "whr", "many"):
        op = {"sel": "Select", "whr": "Where", "many": "SelectMany"}[k]
        return f"{_pr(render(e[1]))}.{op}(lambda {e[2]}: {render(e[3])})"
    if k == "first":
        return f"{_pr(render(e[1]))}.First()"
    if k == "count":
        return f"{_pr(render(e[1]))}.Count()"
    if k == "len":
        return f"len({render(e[1])})"
    if k == "idx":
        ix = e[2] if len(e) > 2 else "0"
        return f"{_pr(render(e[1]))}[{ix % render(e[1]) if '%s' in ix else ix}]"
    if k in ("cmp", "num"):
        return f"({render(e[2])} {e[1]} {render(e[3])})"
    if k == "bool":
        return f"({render(e[2])} {e[1]} {render(e[3])})"
    if k == "calledl":
        return f"(lambda {e[1]}, *, z_=0: {render(e[3])})({render(e[2])})"
    if k == "not":
        return f"(not {render(e[1])})"
    if k == "neg":
        return f"({e[1]}{render(e[2])})"
    if k == "dict":
        return "{" + ", ".join(f"'{kk}': {render(v)}" for kk, v in e[1]) + "}"
    if k == "dictx":
        first = f"**{{'zz': {render(e[2])}}}" if e[1] == "**" else f"('z' + 'z'): {render(e[2])}"
        return "{" + ", ".join([first] + [f"'{kk}': {render(v)}" for kk, v in e[3]]) + "}"
    if k == "fld":
        return f"{_pr(render(e[1]))}.{e[2]}" if e[3] == "attr" else f"{_pr(render(e[1]))}['{e[2]}']"
    raise ValueError(k)


def _pr(s):
    return f"({s})" if s[0] == "{" else s


def ann(t):
    if t is None:
        return None
    k = t[0]
    if k in ("int", "float", "bool", "str"):
        return k
    if k == "any":
        return "Any"
    if k == "tv":
        return t[1]
    if k == "it":
        return f"Iterable[{ann(t[1])}]"
    if k == "opt":
        return f"Optional[{ann(t[1])}]"
    if k == "c":
        return t[1] + (f"[{', '.join(ann(a) for a in t[2])}]" if t[2] else "")
    raise ValueError(t)


def _tvars(t):
    """type variables of a type IR in order of first appearance"""
    out = []

    def go(x):
        if x[0] == "tv" and x[1] not in out:
            out.append(x[1])
        for a in (x[2] if x[0] == "c" else [x[1]] if x[0] == "it" else []):
            go(a)

    go(t)
    return out


def ann_partial(t):
    """like ann(), but the arguments of the outermost generic are written as quoted names"""
    if t[0] == "it":
        return f"Iterable[{ann(t[1])!r}]"
    if t[0] == "c" and t[2]:
        return t[1] + "[" + ", ".join(repr(ann(a)) for a in t[2]) + "]"
    return repr(ann(t))


def build(model, rename=None, partial=()):
    import re

    from func_adl import ObjectStream, register_func_adl_os_collection

    ns = {"Any": Any, "Generic": Generic, "Iterable": Iterable, "Optional": Optional, "TypeVar": TypeVar, "dataclasses": dataclasses, "ObjectStream": ObjectStream}
    src = ["T = TypeVar('T')", "U = TypeVar('U')", "K = TypeVar('K')", "V = TypeVar('V')"]
    for cls in ORDER:
        params, base = SKEL[cls]
        if base is None:
            b = f"(Generic[{', '.join(params)}])" if params else ""
        elif cls in EXTRA_FIRST:
            b = f"({EXTRA_FIRST[cls]}, {ann(base)})"
        elif cls in GENERIC_FIRST:
            b = f"(Generic[{', '.join(params)}], {ann(base)})"
        elif _tvars(base) != params:
            b = f"({ann(base)}, Generic[{', '.join(params)}])"  # own parameter list differs from the order of appearance in the base
        else:
            b = f"({ann(base)})"
        src.append(f"class {cls}{b}:")
        body = []
        for name, ret in model.get(cls, []):
            a = ann(ret)
            # the outer generic of a partially quoted annotation is evaluated when the def is executed: it must exist already
            if a and f"{cls}.{name}" in partial and (ret[0] == "it" or (ret[1] in ORDER and ORDER.index(ret[1]) < ORDER.index(cls))):
                body.append(f"    def {name}(self) -> {ann_partial(ret)}: ...")
            else:
                body.append(f"    def {name}(self){' -> ' + repr(a) if a else ''}: ...")
        src.append("\n".join(body) if body else "    pass")
    # string annotations (forward references / `from __future__ import annotations` style) next to plain ones
    info_methods = "".join(f"\n    def {name}(self){' -> ' + repr(ann(ret)) if ret is not None and ann(ret) else ''}: ..." for name, ret in model.get("Info", []))
    src.append("@dataclasses.dataclass\nclass Info:\n    x: int\n    w: 'float'\n    trk: 'Trk'\n    trks: 'Iterable[Trk]'" + info_methods)
    src.append("class Coll(ObjectStream[T]):\n    def __init__(self, a, item_type=Any):\n        super().__init__(a, item_type)\n"
               "    def Top(self) -> T: ...\n    def N(self) -> int: ...\n    def Rest(self) -> Iterable[T]: ...")
    from vf.common import srcgen

    text = "\n".join(src)
    for old, new in (rename or {}).items():
        text = re.sub(rf"\b{old}\b", new, text)
    mod = srcgen.load(text, ns, prefix="vfmodel")  # a real module: string annotations resolve through sys.modules
    ns = mod.__dict__
    for old, new in (rename or {}).items():
        ns[old] = ns[new]  # the harness keeps using the skeleton's names
    ns["_vf_module"] = mod
    register_func_adl_os_collection(ns["Coll"])
    return ns


def to_typing(t, ns):
    k = t[0]
    if k == "rec":
        return None  # dict dataclass: compared field by field
    return eval(ann(t), ns)


def _features(stages, model):
    steps, edge = 0, False

    def go(e):
        nonlocal steps, edge
        if not isinstance(e, list):
            return
        if e and e[0] in ("call", "sel", "whr", "many", "first", "count", "len", "idx", "fld"):
            steps += 1
        for x in e:
            go(x)

    for s in stages:
        go(s[2])
    txt = repr(stages)
    for cls in ORDER[3:]:
        for name, ret in model.get(cls, []):
            if f"'{name}'" in txt:
                edge = True
    return steps, edge


def _type_eq(got, want_ir, ns):
    """compare a typing object produced by func_adl with the expected IR"""
    if want_ir[0] == "rec":
        if not dataclasses.is_dataclass(got):
            return False
        from typing import get_type_hints

        try:
            hints = get_type_hints(got)
        except Exception:
            hints = {f.name: f.type for f in dataclasses.fields(got)}  # unresolvable field types are compared as they are
        return list(hints) == [k for k, _ in want_ir[1]] and all(_type_eq(hints[k], v, ns) for k, v in want_ir[1])
    if want_ir[0] == "it" and want_ir[1][0] == "rec":
        from typing import get_args, get_origin

        return get_origin(got) is get_origin(Iterable[int]) and _type_eq(get_args(got)[0], want_ir[1], ns)
    return got == to_typing(want_ir, ns)


def expected_types(case):
    """replay the generator's own typing of the stages (kept in the case implicitly: recompute from IR)"""
    model = case["model"]

    def ty(e, env):
        k = e[0]
        if k == "var":
            return env[e[1]]
        if k == "const":
            return e[2]
        if k == "call":
            t = ty(e[1], env)
            r = lookup_method(model, t, e[2])
            if r is None and elem_of(t) is not None:
                for n, rr in COLL_METHODS:
                    if n == e[2]:
                        return subst(rr, {"T": elem_of(t)})
            return r if r is not None else ["any"]
        if k in ("sel", "whr", "many"):
            t = ty(e[1], env)
            el = elem_of(t)
            env2 = dict(env)
            env2[e[2]] = el
            if k == "whr":
                return ["it", el]
            bt = ty(e[3], env2)
            return ["it", bt] if k == "sel" else ["it", elem_of(bt)]
        if k in ("first", "idx"):
            return elem_of(ty(e[1], env))
        if k in ("count", "len"):
            return ["int"]
        if k == "calledl":
            env3 = dict(env)
            env3[e[1]] = ty(e[2], env)
            return ty(e[3], env3)
        if k in ("cmp", "bool", "not"):
            return ["bool"]
        if k == "neg":
            t = ty(e[2], env)
            return ["int"] if t == ["bool"] else t
        if k == "num":
            ta, tb = ty(e[2], env), ty(e[3], env)
            if ta == ["any"] or tb == ["any"]:
                return ["any"]
            if ta == ["str"] or tb == ["str"]:
                return ["str"] if (ta == tb and e[1] == "+") else ["any"]
            return ["float"] if (ta == ["float"] or tb == ["float"] or e[1] == "/") else ["int"]
        if k == "dict":
            return ["rec", [[kk, ty(v, env)] for kk, v in e[1]]]
        if k == "dictx":
            return ["rec", [[kk, ty(v, env)] for kk, v in e[3]]]
        if k == "fld":
            t = ty(e[1], env)
            fields = INFO_FIELDS if t == ["c", "Info", []] else t[1]
            return dict((a, b) for a, b in fields)[e[2]]
        raise ValueError(k)

    cur = ["c", "Evt", []]
    out = []
    for s in case["stages"]:
        op, p, e = s[0], s[1], s[2]
        if op == "Select":
            cur = ty(e, {p: cur})
        elif op == "SelectMany":
            cur = elem_of(ty(e, {p: cur}))
        out.append(cur)
    return out


def check(case) -> Result:
    from func_adl import EventDataset

    class DS(EventDataset):
        async def execute_result_async(self, a, title=None):
            return a

    # typing caches generic aliases by their arguments: `Iterable['Trk']` written in two generated modules would be ONE object
    # whose forward reference stays resolved to the first module's class - start every case with empty typing caches
    import typing

    for clear in getattr(typing, "_cleanups", []):
        clear()
    ns = build(case["model"], case.get("rename"), case.get("partial") or ())
    try:
        return _check(case, ns, DS)
    finally:
        from vf.common import srcgen

        srcgen.unload(ns["_vf_module"])


def _check(case, ns, DS) -> Result:
    texts = [f"{s[0]}(lambda {s[1]}: {render(s[2])})" for s in case["stages"]]
    r = Result(sample={"query": texts, "model": {k: [[n, ann(t)] for n, t in v] for k, v in case["model"].items()}, "class_renamed": case.get("rename") or {}},
               key=repr(case["model"]) + "|".join(texts) + repr(case.get("rename") or {}))
    want = expected_types(case)
    steps, edge = _features(case["stages"], case["model"])
    r.labels.append(f"typed-steps:{min(steps, 6)}")
    if edge:
        r.labels.append("generic/inheritance-edge")
    if case.get("rename"):
        r.labels.append("class-named-like-typing")
    if case.get("partial"):
        r.labels.append("partially-quoted-annotation")
    final = want[-1] if want else ["any"]
    r.labels.append("final:" + (final[0] if final[0] != "c" else "class"))
    r.nontrivial = final != ["any"] and (steps >= 2 or edge)

    s = DS(ns["Evt"])
    for stage, w, txt in zip(case["stages"], want, texts):
        op, p, e = stage[0], stage[1], stage[2]
        lam = f"lambda {p}: {render(e)}"
        try:
            if op in ("WhereBad", "SelectBad"):
                try:
                    s.Where(lam) if op == "WhereBad" else s.Select(lam)
                except ValueError:
                    r.labels.append("non-bool-filter-refused" + (":nested" if op == "SelectBad" else ""))
                    return r
                if stage[3] == ["any"]:
                    return r  # nothing is known about the filter's type: not asserted
                return r.fail(f"{'a nested ' if op == 'SelectBad' else ''}Where accepted a filter of declared type {ann(stage[3])}: {lam}")
            s = getattr(s, op)(lam)
        except Exception as ex:
            return r.fail(f"{op}({lam!r}) raised {type(ex).__name__}: {ex}; model {r.sample['model']} renamed {r.sample['class_renamed']}")
        if not _type_eq(s.item_type, w, ns):
            return r.fail(f"after {txt}: item type is {s.item_type!r}, annotations imply {ann(w) if w[0] != 'rec' else w}; model {r.sample['model']} renamed {r.sample['class_renamed']}")
    return r


def selftest():
    model = {"Box": [["get", ["tv", "T"]]], "IntBox": [], "SubBox": [["extra", ["it", ["tv", "T"]]]], "MyIt": [["Last", ["tv", "T"]]], "TrkIt": [], "SubIt": []}
    assert lookup_method(model, ["c", "IntBox", []], "get") == ["int"]
    assert lookup_method(model, ["c", "SubBox", [["c", "Trk", []]]], "get") == ["c", "Trk", []]
    assert lookup_method(model, ["c", "TrkIt", []], "Last") == ["c", "Trk", []]
    assert elem_of(["c", "TrkIt", []]) == ["c", "Trk", []] and elem_of(["c", "SubIt", [["int"]]]) == ["int"] and elem_of(["c", "Box", [["int"]]]) is None
