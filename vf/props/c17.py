"""C17 - method form and function form are interchangeable.

case = {"src": expression text, "data": {"s0": [...], "s1": [...], "ss0": [[...]...], "n0": int}}
"""
from __future__ import annotations

import ast
import copy
import itertools

from hypothesis import strategies as st

from vf.common.harness import Result
from vf.sem import pyeval

ID = "C17"
OPS = ["Select", "SelectMany", "Where", "First", "ResultTTree", "ResultAwkwardArray", "ResultPandasDF",
       "Min", "Max", "Sum", "Aggregate", "Count"]
LOOKALIKE = ["Select2", "count", "ResultParquet", "Zip", "select", "Wheres"]

RULE = (
    "Typed grammar (int / bool / seq / seq-of-seq / result) rendered as source text, every operator drawn in method "
    "form or function form independently at every depth (sources, lambda bodies, arguments, callee expressions, directly as the seed argument of Aggregate, in default values of lambda parameters, inside receivers that are an index / a conditional / an attribute of a holder object), with look-alike "
    "non-operator methods (Select2, count, ResultParquet, Zip, select, Wheres) and non-call attribute references "
    "(x.Select as a value); in a fifth of the cases the caller passes its own list of known operator names (any subset, also the empty one). Non-trivial = >=2 method-form operator calls at different depths AND >=1 look-alike or "
    "attribute reference. Distinct by source text + data."
)
ASSUMPTIONS = [
    "Inputs may be DAGs (one node object reachable from two parents), as the library itself produces them; the reference "
    "transform works on a deep copy (which preserves the sharing) and builds fresh nodes.",
    "Operator calls may carry an extra keyword argument: Op(seq, args..., key=value) is the function form of seq.Op(args..., key=value).",
    "Value equality is checked on the LINQ subset with python sequences; CPython is the evaluator.",
]
BUDGET = {"quick": (4, 1200), "thorough": (16, 10000)}
EXHAUSTIVE_NOTE = "12 operator names + 6 look-alikes x 21 syntactic positions (incl. keyword-argument values, dict values, tuple/list elements, the callee of a call, directly as a positional argument of a method-form / function-form operator call) x method/function form, fully enumerated"


class SeqX(pyeval.Seq):
    def Select(self, f, tag=None):
        return SeqX([f(x) for x in self])

    def Where(self, f, tag=None):
        return SeqX([x for x in self if f(x)])

    def SelectMany(self, f, tag=None):
        return SeqX([y for x in self for y in f(x)])

    # look-alikes: deterministic, distinguishable from the operators
    def Select2(self, f):
        return SeqX([f(x) for x in self] + [-77])

    def select(self, f):
        return SeqX([-78] + [f(x) for x in self])

    def Wheres(self, f):
        return SeqX([x for x in self if not f(x)])

    def count(self):
        return 1000 + len(self)

    def Zip(self):
        return SeqX(list(self) + list(self))

    def ResultParquet(self, *a):
        return ("ResultParquet-method", pyeval.materialise(self)) + tuple(pyeval.materialise(x) for x in a)

    def ResultTTree(self, *a):
        return pyeval.PRELUDE["ResultTTree"](self, *a)

    def ResultAwkwardArray(self, *a):
        return pyeval.PRELUDE["ResultAwkwardArray"](self, *a)

    def ResultPandasDF(self, *a):
        return pyeval.PRELUDE["ResultPandasDF"](self, *a)


class _Box:
    def __init__(self, seq):
        self.seq = seq


def _x(v):
    if isinstance(v, list) and not isinstance(v, SeqX):
        return SeqX([_x(i) for i in v])
    return v


def _env(data):
    env = {k: _x(v) for k, v in data.items()}
    env.update(
        Select=lambda s, f, tag=None: _x(s).Select(f),
        Where=lambda s, f, tag=None: _x(s).Where(f),
        SelectMany=lambda s, f, tag=None: _x(s).SelectMany(f),
        Sum=lambda s: sum(s),
        Max=lambda s: max(s),
        Min=lambda s: min(s),
        Select2=lambda s, f: _x(s).Select2(f),  # function forms of two look-alikes: a caller may declare them operators
        count=lambda s: _x(s).count(),
        keep=lambda f, v: v,
        kw=lambda v, w=0: v,
        ident=lambda f: f,
        box=lambda s: _Box(_x(s)),
    )
    return env


def _call(draw, op, recv, args):
    """render op in method or function form"""
    if op in ("Select", "Where", "SelectMany") and draw(st.integers(0, 7)) == 0:
        # an extra argument given by keyword (a hint for the back end): it stays a keyword argument of the function form, and
        # operator calls inside its value are rewritten like everywhere else
        args = list(args) + ["tag=" + draw(st.sampled_from(["n0", "(s0).Count()", "Count(s1)", "(ss0).First().Count()"]))]
    if draw(st.booleans()):
        return f"({recv}).{op}({', '.join(args)})"
    return f"{op}({', '.join([recv] + args)})"


@st.composite
def _expr(draw, ty, depth, ivars, svars):
    leaf = depth <= 0 or draw(st.integers(0, 9)) < 1
    d = depth - 1
    if ty == "SS":
        if leaf or draw(st.booleans()):
            return "ss0"
        v = draw(st.sampled_from(["v", "w", "x"]))
        return _call(draw, "Select", draw(_expr("S", d, ivars, svars)), [f"lambda {v}: {draw(_expr('S', d, ivars + [v], svars))}"])
    if ty == "S":
        k = draw(st.integers(0, 1)) if leaf else draw(st.integers(1, 8))
        if k == 0:
            return draw(st.sampled_from(["s0", "s1"] + svars))
        if k == 1:
            return draw(st.sampled_from(["s0", "s1"] + svars + ["ss0.First()"]))
        v = draw(st.sampled_from(["v", "w", "x"]))
        if draw(st.integers(0, 11)) == 0:
            v = draw(st.sampled_from(["Count", "Where", "Sum", "First"]))  # a parameter spelled like an operator: operators go by NAME
        if k == 3 and draw(st.booleans()):
            # a lambda with a second, defaulted parameter (positional or keyword-only): the default is an expression like any other
            n_ = draw(st.sampled_from(["n", "k"]))
            star = draw(st.sampled_from(["", "*, "]))
            return _call(draw, "Select", draw(_expr("S", d, ivars, svars)), [f"lambda {v}, {star}{n_}={draw(_expr('I', d, ivars, svars))}: {draw(_expr('I', d, ivars + [v, n_], svars))}"])
        if k in (2, 3):
            return _call(draw, "Select", draw(_expr("S", d, ivars, svars)), [f"lambda {v}: {draw(_expr('I', d, ivars + [v], svars))}"])
        if k == 4:
            return _call(draw, "Where", draw(_expr("S", d, ivars, svars)), [f"lambda {v}: {draw(_expr('B', d, ivars + [v], svars))}"])
        if k == 5:
            return _call(draw, "SelectMany", draw(_expr("SS", d, ivars, svars)), [f"lambda {v}: {draw(_expr('S', d, ivars, svars + [v]))}"])
        if k == 6:
            return _call(draw, "First", draw(_expr("SS", d, ivars, svars)), [])
        if k == 7:
            la = draw(st.sampled_from(["Select2", "select"]))
            return f"({draw(_expr('S', d, ivars, svars))}).{la}(lambda {v}: {draw(_expr('I', d, ivars + [v], svars))})"
        if k == 8 and draw(st.booleans()):
            return f"kw(w={draw(_expr('I', d, ivars, svars))}, v={draw(_expr('S', d, ivars, svars))})"
        if k == 8:
            # a sequence reached through a compound expression that is NOT a call: index, conditional, attribute of a holder object
            z = draw(st.integers(0, 2))
            if z == 0:
                return f"({draw(_expr('SS', d, ivars, svars))})[0]"
            if z == 1:
                return f"({draw(_expr('S', d, ivars, svars))} if {draw(_expr('B', d, ivars, svars))} else {draw(_expr('S', d, ivars, svars))})"
            return f"box({draw(_expr('S', d, ivars, svars))}).seq"
        la = draw(st.sampled_from(["Zip()", f"Wheres(lambda {v}: {v} > 1)"]))
        return f"({draw(_expr('S', d, ivars, svars))}).{la}"
    if ty == "B":
        return f"({draw(_expr('I', d, ivars, svars))} {draw(st.sampled_from(['>', '<', '==', '!=']))} {draw(_expr('I', d, ivars, svars))})"
    if ty == "R":
        s = draw(_expr("S", d, ivars, svars))
        k = draw(st.integers(0, 3))
        if k == 0:
            return _call(draw, "ResultTTree", s, ["['c']", "'tree'", "'f.root'"])
        if k == 1:
            return _call(draw, "ResultAwkwardArray", s, ["['c']"])
        if k == 2:
            return _call(draw, "ResultPandasDF", s, ["['c']"])
        return f"({s}).ResultParquet(['c'], 'f.pq')"
    k = draw(st.integers(0, 1)) if leaf else draw(st.integers(1, 17))
    if k in (16, 17):
        # operators inside the CALLEE of a call: an immediately applied lambda, a lambda picked from a list, a lambda handed
        # through a helper first
        q = draw(st.sampled_from(["q", "v", "s"]))
        body = draw(_expr("I", d, ivars, svars + [q]))
        if q not in body:
            body = _call(draw, "Count", _call(draw, "Where", q, [f"lambda z: z > {draw(st.integers(-2, 3))}"]), [])
        arg = draw(_expr("S", d, ivars, svars))
        return draw(st.sampled_from([f"(lambda {q}: {body})({arg})", f"[lambda {q}: {body}, lambda {q}: 0][0]({arg})", f"ident(lambda {q}: {body})({arg})"]))
    if k == 15:  # the same sub-expression twice: check() turns the two occurrences into ONE shared node (a DAG)
        a = draw(_expr('I', d, ivars, svars))
        return f"({a} + {a})"
    if k == 11:
        return f"kw(v={draw(_expr('I', d, ivars, svars))}, w={draw(_expr('I', d, ivars, svars))})"
    if k == 12:
        return f"({draw(_expr('I', d, ivars, svars))}, {draw(_expr('I', d, ivars, svars))})[{draw(st.integers(0, 1))}]"
    if k == 13:
        return f"{{'a': {draw(_expr('I', d, ivars, svars))}, 'b': {draw(_expr('I', d, ivars, svars))}}}['{draw(st.sampled_from('ab'))}']"
    if k == 14:
        return f"[{draw(_expr('I', d, ivars, svars))}, *{draw(_expr('S', d, ivars, svars))}][0]"
    if k == 0:
        return str(draw(st.integers(-4, 9)))
    if k == 1:
        return draw(st.sampled_from(ivars + ["n0"]))
    if k in (2, 3):
        return _call(draw, "Count", draw(_expr("S", d, ivars, svars)), [])
    if k == 4:
        return _call(draw, "First", draw(_expr("S", d, ivars, svars)), [])
    if k == 5:
        return _call(draw, draw(st.sampled_from(["Sum", "Max", "Min"])), draw(_expr("S", d, ivars, svars)), [])
    if k == 6:
        # the seed is an arbitrary int expression: an operator call can be DIRECTLY a positional argument of an operator call
        init = draw(st.sampled_from(["0", None, None]))
        if init is None:
            init = _call(draw, draw(st.sampled_from(["Count", "Count", "Sum"])), draw(_expr("S", d, ivars, svars)), []) if draw(st.booleans()) else draw(_expr("I", d, ivars, svars))
        return _call(draw, "Aggregate", draw(_expr("S", d, ivars, svars)), [init, "lambda acc, v: acc + v"])
    if k == 7:
        return f"({draw(_expr('S', d, ivars, svars))}).count()"
    if k == 8:
        op = draw(st.sampled_from(OPS))
        return f"keep(({draw(_expr('S', d, ivars, svars))}).{op}, {draw(_expr('I', d, ivars, svars))})"
    if k == 9:
        return f"({draw(_expr('I', d, ivars, svars))} {draw(st.sampled_from(['+', '-', '*']))} {draw(_expr('I', d, ivars, svars))})"
    return f"({draw(_expr('I', d, ivars, svars))} if {draw(_expr('B', d, ivars, svars))} else {draw(_expr('I', d, ivars, svars))})"


_ints = st.lists(st.integers(-5, 9), max_size=4)
_ints1 = st.lists(st.integers(-5, 9), min_size=1, max_size=4)


@st.composite
def _case(draw, maxdepth):
    ty = draw(st.sampled_from(["I", "I", "S", "S", "R", "SS"]))
    src = draw(_expr(ty, draw(st.integers(2, maxdepth)), [], []))
    data = {
        "s0": draw(_ints1),
        "s1": draw(_ints),
        "ss0": draw(st.lists(_ints1 if draw(st.booleans()) else _ints, min_size=draw(st.integers(0, 1)), max_size=3)),
        "n0": draw(st.integers(-3, 5)),
    }
    case = {"src": src, "data": data}
    if draw(st.integers(0, 4)) == 0:
        # the caller may say which operator names are known (second parameter of the function): any subset, also the empty one
        case["names"] = draw(st.one_of(st.just([]), st.lists(st.sampled_from(OPS + ["Select2", "count"]), unique=True, max_size=6)))
    return case


def strategy(tier):
    return _case(5 if tier == "quick" else 6)


_ARGS = {
    "Select": "lambda v: v + 1", "SelectMany": "lambda v: s0", "Where": "lambda v: v > 1", "First": "", "Min": "", "Max": "", "Sum": "",
    "Count": "", "Aggregate": "0, lambda a, v: a + v", "ResultTTree": "['c'], 't', 'f'", "ResultAwkwardArray": "['c']",
    "ResultPandasDF": "['c']", "Select2": "lambda v: v", "count": "", "ResultParquet": "['c'], 'f'", "Zip": "", "select": "lambda v: v",
    "Wheres": "lambda v: v > 1",
}


def exhaustive(tier):
    data = {"s0": [3, 1, 4], "s1": [], "ss0": [[1, 2], [5]], "n0": 2}
    positions = [
        "{X}",
        "keep(n0, {X})",
        "Select(s0, lambda q: {X})",
        "(s0).Where(lambda q: keep({X}, q > 1)).Count()",
        "Count(Select(s1, lambda q: {X}))",
        "keep((s0).Select, {X})",
        "kw(w=1, v={X})",
        "{'a': {X}}['a']",
        "(1, {X})[1]",
        "[*s1, {X}][0]",
        "(lambda z: {X})(1)",
        "[lambda z: {X}][0](1)",
        "ident(lambda z: {X})(1)",
        "Count(Select(s0, lambda q, n={X}: keep(n, q)))",
        "Count((s0).Select(lambda q, *, n=keep({X}, 1): q + n))",
        "keep(0, (ss0.Select(lambda q: keep({X}, q)))[0].Count())",
        "((s0).Where(lambda q: keep({X}, True)) if n0 > 0 else s1).Count()",
        "box((s0).Select(lambda q: keep({X}, q))).seq.Count()",
        "(s0).Aggregate({X}, lambda a, v: a + v)",
        "Aggregate(s0, {X}, lambda a, v: a + v)",
        "(s0).Select(lambda v: v).Aggregate({X}, lambda a, v: a + v)",
    ]
    for name, pos, form in itertools.product(OPS + LOOKALIKE, positions, ["m", "f"]):
        a = _ARGS[name]
        recv = "ss0" if name == "SelectMany" else "s0"
        if form == "m":
            x = f"({recv}).{name}({a})"
        else:
            if name in LOOKALIKE:
                continue
            x = f"{name}({recv}{', ' + a if a else ''})"
        yield {"src": pos.replace("{X}", x), "data": data}


def _reference(tree, names=None):
    names = OPS if names is None else names

    class R(ast.NodeTransformer):
        def visit_Call(self, n):
            self.generic_visit(n)
            if isinstance(n.func, ast.Attribute) and n.func.attr in names:
                return ast.Call(func=ast.Name(id=n.func.attr, ctx=ast.Load()), args=[n.func.value] + list(n.args), keywords=list(n.keywords))
            return n

    return R().visit(copy.deepcopy(tree))


def _method_ops(tree, names=None):
    names = OPS if names is None else names
    return [n for n in ast.walk(tree) if isinstance(n, ast.Call) and isinstance(n.func, ast.Attribute) and n.func.attr in names]


def _depths(tree):
    out = []

    def go(n, d):
        if isinstance(n, ast.Call) and isinstance(n.func, ast.Attribute) and n.func.attr in OPS:
            out.append(d)
        for c in ast.iter_child_nodes(n):
            go(c, d + 1)

    go(tree, 0)
    return out


def check(case) -> Result:
    from func_adl.ast.func_adl_ast_utils import change_extension_functions_to_calls

    r = Result(sample=case, key=case["src"] + repr(case["data"]))
    tree = ast.parse(case["src"], mode="eval").body
    n_shared = _share_equal_subtrees(tree)
    depths = _depths(tree)
    look = [n for n in ast.walk(tree) if isinstance(n, ast.Attribute) and n.attr in LOOKALIKE]
    attr_refs = [n for n in ast.walk(tree) if isinstance(n, ast.Attribute) and n.attr in OPS]
    n_ref = len(attr_refs) - len(depths)
    r.labels.append(f"method-ops:{min(len(depths), 4)}")
    if n_shared:
        r.labels.append("shared-subtree(DAG)")
    if look:
        r.labels.append("lookalike")
    if n_ref > 0:
        r.labels.append("attribute-reference")
    if any(isinstance(n, ast.Call) and isinstance(n.func, ast.Name) and n.func.id in OPS for n in ast.walk(tree)):
        r.labels.append("function-form-present")
    in_lambda = any(_method_ops(lam.body) for lam in ast.walk(tree) if isinstance(lam, ast.Lambda))
    if in_lambda:
        r.labels.append("method-op-in-lambda")
    r.nontrivial = len(set(depths)) >= 2 and (bool(look) or n_ref > 0)

    env = _env(case["data"])
    try:
        expect = pyeval.materialise(pyeval.evaluate(tree, env))
    except Exception:
        expect = None
        r.ref_error = True

    names = case.get("names")
    if names is not None:
        r.labels.append("custom-operator-names:" + ("empty" if not names else "subset"))
    call = (lambda t: change_extension_functions_to_calls(t)) if names is None else (lambda t: change_extension_functions_to_calls(t, list(names)))
    ref = _reference(tree, names)
    try:
        got = call(copy.deepcopy(tree))
    except Exception as e:
        return r.fail(f"change_extension_functions_to_calls raised {type(e).__name__}: {e} on {case['src']}")
    if not isinstance(got, ast.AST):
        return r.fail(f"returned {got!r}")
    try:
        ast.dump(got)
    except RecursionError:
        # a node (or list of nodes) that contains itself: the result is not a tree any more
        return r.fail(f"the rewritten query is not a finite tree (a node list contains itself): input {case['src']}")
    if ast.dump(got) != ast.dump(ref):
        return r.fail(f"structure differs from Op(seq, args...) reference: input {case['src']} -> {_unp(got)}; expected {_unp(ref)}")
    left = _method_ops(got, names)
    if left:
        return r.fail(f"method-form operator call left: {_unp(left[0])}")
    try:
        again = call(copy.deepcopy(got))
    except Exception as e:
        return r.fail(f"second application raised {type(e).__name__}: {e}")
    if ast.dump(again) != ast.dump(got):
        return r.fail(f"not idempotent: {_unp(got)} -> {_unp(again)}")
    op_named_params = any(a.arg in OPS for lam in ast.walk(tree) if isinstance(lam, ast.Lambda) for a in lam.args.args)
    if op_named_params:
        r.labels.append("parameter-named-like-an-operator")  # python's scoping is not how a back end reads Op(...): no value comparison
    if expect is not None and not op_named_params:
        try:
            val = pyeval.materialise(pyeval.evaluate(got, env))
        except Exception as e:
            return r.fail(f"function-form query raised {type(e).__name__}: {e}; input {case['src']}")
        if val != expect:
            return r.fail(f"value changed {expect} -> {val}; input {case['src']}")
    return r


def _share_equal_subtrees(tree):
    """func_adl routinely produces DAGs (substituted arguments, copy-on-write): make the operands of `X + X` one shared object"""
    n = 0
    for node in ast.walk(tree):
        if isinstance(node, ast.BinOp) and isinstance(node.op, ast.Add) and isinstance(node.left, (ast.Call, ast.Attribute, ast.Subscript)) \
                and ast.dump(node.left) == ast.dump(node.right):
            node.right = node.left
            n += 1
    return n


def _unp(t):
    try:
        return ast.unparse(ast.fix_missing_locations(copy.deepcopy(t)))
    except Exception:
        return ast.dump(t)[:300]


def selftest():
    # reference agrees with the outputs pinned in tests/ast/test_func_adl_ast_utils.py
    t = ast.parse("jets.Select(lambda b: b.Select(lambda j: j*2))", mode="eval").body
    assert _unp(_reference(t)) == "Select(jets, lambda b: Select(b, lambda j: j * 2))"
    env = _env({"s0": [1, 2], "s1": [], "ss0": [[1], [2, 3]], "n0": 1})
    assert pyeval.materialise(pyeval.evaluate(ast.parse("SelectMany(ss0, lambda v: v).Select2(lambda x: x).Count()", mode="eval").body, env)) == ("i", 4)
