"""C14 - intermediate tuples and dictionaries are compiled away.

case = {"src": linear chain text over ds, "data": dataset json, "naming": scheme, "final_package": bool}
"""
from __future__ import annotations

import ast

from hypothesis import strategies as st

from vf.common.harness import Result
from vf.gen import typed
from vf.props import c02
from vf.sem import pyeval

ID = "C14"
RULE = (
    "Linear chains of 2-6 Select/Where/SelectMany stages over ds in function form: producer stages package values "
    "(scalars, objects, member sequences, sequences of packages built by a nested Select) into tuples/lists/dicts nested up to 3 deep with field names carrying the "
    "reserved prefix f_ (or named like attributes of python's dict: values, items, keys, get, copy, pop, update), consumer stages only project with constant indices/keys/attribute names (incl. nested Select/"
    "Where over a packaged sequence that refers to other packaged fields, called lambdas and First() over packaged "
    "sequences); the last stage returns a scalar/object (variant: a final package). All binder-naming schemes. "
    "Non-trivial = >=2 producer/consumer boundaries, or one boundary that crosses a Where or SelectMany stage. "
    "Distinct by source text."
)
ASSUMPTIONS = [
    "First() is applied to sequences of packages, never to a sequence of sequences of packages (First(First(..))[i] inside one "
    "stage is not inter-stage packaging and is not resolved by the simplifier; excluded from the domain).",
    "The data model has no subscriptable members and no member whose name starts with f_ or is one of the dict-method names, so any remaining Subscript or "
    "such attribute is a left-over projection.",
    "In the final-package variant constructions may remain only in number <= the tuple/list/dict constructors in the "
    "final element type (known to the generator).",
    "When a producer packages a SEQUENCE of packages (nested Select returning tuples), a construction may survive as the source of an "
    "operator that only iterates it; for those cases only left-over projections are asserted.",
    "Result equality is C02's job; it is evaluated here too as a guard against a vacuous pass.",
]
BUDGET = {"quick": (8, 500), "thorough": (16, 8000)}


def _container_type(cx, env, depth):
    for _ in range(4):
        t = typed.any_type(cx, env, depth)
        if t[0] in ("T", "L", "R"):
            return t
    n = cx.int_(1, 3)
    return ("T", tuple(typed.any_type(cx, env, depth - 1) for _ in range(n)))


def _count_containers(t):
    if t[0] == "S":
        return _count_containers(t[1])
    if t[0] in ("T", "L"):
        return 1 + sum(_count_containers(x) for x in t[1])
    if t[0] == "R":
        return 1 + sum(_count_containers(x) for _, x in t[1])
    return 0


def _has_seq(t):
    if t[0] == "S":
        return True
    if t[0] in ("T", "L"):
        return any(_has_seq(x) for x in t[1])
    if t[0] == "R":
        return any(_has_seq(x) for _, x in t[1])
    return False


@st.composite
def _case(draw, maxstages):
    naming = draw(st.sampled_from(["distinct", "same", "reuse", "reuse", "argn", "astnames"]))
    cfg = typed.Cfg(naming=naming, method_form=0.0, odd_selectors=False, ifexp=draw(st.booleans()), first_on_seq=False, kwonly_in_called=True, dict_method_keys=True, duplicate_keys=False, seq_of_packages=True, starred_calls=True, callable_fields=True)
    cx = typed.Ctx(draw, cfg)
    env = [("ds", typed.S(typed.EVT))]
    n = draw(st.integers(2, maxstages))
    final_package = draw(st.integers(0, 4)) == 0
    src, et = "ds", typed.EVT
    depth = 2
    last_lambda = None
    for i in range(n):
        last = i == n - 1
        v = cx.fresh(env)
        e2 = typed.bind(env, v, et)
        c = draw(st.integers(0, 9))
        if last:
            c = draw(st.sampled_from([0, 0, 0, 8]))
        if c <= 5:
            if last and not final_package:
                t = draw(st.sampled_from([typed.I, typed.F, typed.B]))
                if et[0] == "O" and draw(st.booleans()):
                    t = et
            else:
                t = _container_type(cx, e2, 3 if draw(st.booleans()) else 2)
            body = typed.gen(cx, e2, t, depth)
            last_lambda = body
            src, et = f"Select({src}, lambda {v}: {body})", t
        elif c <= 7:
            body = typed.gen(cx, e2, typed.B, depth)
            src = f"Where({src}, lambda {v}: {body})"
        else:
            # SelectMany over a packaged (or member) sequence, possibly re-packaging with other fields
            sp = typed.seq_paths(cx, [(v, et)])
            if not sp:
                body = typed.gen(cx, e2, typed.B, 1)
                src = f"Where({src}, lambda {v}: {body})"
                continue
            se, sty = cx.pick(sp)
            se = typed._fill(cx, se)
            if draw(st.booleans()) and not (last and not final_package):
                w = cx.fresh(e2)
                e3 = typed.bind(e2, w, sty[1])
                t = _container_type(cx, e3, 2)
                if _has_seq(t) and last:
                    t = ("T", (sty[1],))
                inner_body = typed.gen(cx, e3, t, depth)
                last_lambda = inner_body
                src, et = f"SelectMany({src}, lambda {v}: Select({se}, lambda {w}: {inner_body}))", t
            else:
                src, et = f"SelectMany({src}, lambda {v}: {se})", sty[1]
                last_lambda = None
    if not final_package and et[0] in ("T", "L", "R"):
        # close the chain with a scalar consumer stage
        v = cx.fresh(env)
        e2 = typed.bind(env, v, et)
        body = typed.gen(cx, e2, draw(st.sampled_from([typed.I, typed.F, typed.B])), 1)
        src = f"Select({src}, lambda {v}: {body})"
    return {"src": src, "data": draw(typed.dataset()), "naming": naming, "final_package": bool(final_package),
            "final_containers": _count_containers(et), "seq_of_packages": cx.used_seq_of_packages}


def strategy(tier):
    return _case(4 if tier == "quick" else 6)


def _stages(tree):
    """outermost-first list of (op, lambda) along the source chain"""
    out = []
    n = tree
    while isinstance(n, ast.Call) and isinstance(n.func, ast.Name) and n.func.id in c02.OPS and len(n.args) == 2:
        out.append((n.func.id, n.args[1]))
        n = n.args[0]
    return out


def _containers(node):
    return [n for n in ast.walk(node) if isinstance(n, (ast.Tuple, ast.List, ast.Dict))]


def _projections(node):
    out = []
    for n in ast.walk(node):
        if isinstance(n, ast.Subscript):
            out.append(n)
        if isinstance(n, ast.Attribute) and (n.attr.startswith("f_") or n.attr in typed.DICT_METHOD_KEYS):
            out.append(n)
    return out


def check(case) -> Result:
    r = Result(sample={"src": case["src"], "final_package": case["final_package"]}, key=case["src"])
    r.labels.append("naming:" + case.get("naming", "?"))
    tree, out, expect = c02.semantic_check(case, r)
    stages = _stages(tree)
    # producer/consumer boundaries: a stage whose lambda result is a package followed by a stage that projects
    boundaries = 0
    crosses = False
    rev = list(reversed(stages))  # source order
    for i, (op, lam) in enumerate(rev[:-1]):
        body = lam.body
        if op == "SelectMany" and isinstance(body, ast.Call) and isinstance(body.func, ast.Name) and body.func.id == "Select":
            body = body.args[1].body
        if isinstance(body, (ast.Tuple, ast.List, ast.Dict)):
            j = i + 1
            while j < len(rev) and not _projections(rev[j][1]):
                j += 1
            if j < len(rev):
                boundaries += 1
                if j > i + 1 or rev[j][0] in ("Where", "SelectMany") or op == "SelectMany":
                    crosses = True
    r.labels.append(f"stages:{len(stages)}")
    r.labels.append(f"boundaries:{min(boundaries, 3)}")
    if crosses:
        r.labels.append("boundary-crosses-where/selectmany")
    if case["final_package"]:
        r.labels.append("final-package")
    if not r.ok or out is None:
        return r
    r.nontrivial = boundaries >= 2 or (boundaries >= 1 and crosses)

    left_proj = _projections(out)
    if left_proj:
        return r.fail(f"projection left in simplified query: {c02.unp(left_proj[0])}   in   {c02.unp(out)}   from   {case['src']}")
    left = _containers(out)
    if case.get("seq_of_packages"):
        # a sequence of packages may legitimately survive as the SOURCE of an operator whose lambda never looks at its elements (it
        # is iterated, not taken apart): for these cases only left-over projections are asserted
        r.labels.append("sequence-of-packages")
        left = []
    if left:
        if not case["final_package"]:
            return r.fail(f"construction left in simplified query: {c02.unp(left[0])}   in   {c02.unp(out)}   from   {case['src']}")
        allowed = case.get("final_containers", 0)
        if len(left) > allowed:
            return r.fail(f"{len(left)} constructions left but the final result type only contains {allowed}: {c02.unp(out)}   from   {case['src']}")
    return c02.compare_values(case, r, tree, out, expect)


def selftest():
    t = ast.parse("Select(Where(Select(ds, lambda e: (e.met, {'f_a': e.run})), lambda p: p[0] > 1), lambda p: p[1].f_a)", mode="eval").body
    st_ = _stages(t)
    assert [s[0] for s in st_] == ["Select", "Where", "Select"]
    assert len(_projections(t)) == 3 and len(_containers(t)) == 2
