"""C20 - the query hash identifies structure and nothing else.

case = {"src": expression text (body of `lambda e: ...`), "noise": [ints], "ops": ["Select"|"Where"|"SelectMany"...]}
"""
from __future__ import annotations

import ast
import atexit
import copy
import io
import os
import subprocess
import sys
import tokenize

from hypothesis import strategies as st

from vf.common import srcgen
from vf.common.harness import REPO, Result
from vf.gen import untyped

ID = "C20"
RULE = (
    "Queries = 1-3 stage chains whose lambda bodies come from the untyped expression grammar (names, attributes, calls "
    "with keywords, subscripts, unary/binary/bool/compare, conditionals, tuples, lists, dicts, nested lambdas, constants "
    "of type int/float/str(incl. non-ASCII)/bool/bytes). Equal-structure pairs: the query re-tokenised with generated "
    "whitespace/line breaks/redundant parentheses/line offset, ast.unparse round trip, annotations (_q_metadata, executor "
    "refs, arbitrary attributes) attached to nodes, supplied as string vs ast vs callable on two dataset objects with "
    "and without QMetaData, and hashed in a child process with another PYTHONHASHSEED. Different-structure pairs: every "
    "single edit of the query (rename name/attribute/keyword/parameter, constant value, constant type, operator, argument "
    "order, drop argument, wrap/unwrap nesting, tuple<->list, and re-bracketing edits that keep the leaves and their order but move a list boundary: next sibling into the preceding call/tuple/list/boolean chain and back, currying f(a, b) <-> f(a)(b), re-association of arithmetic, a < b < c <-> a < (b < c), g() <-> g, last parameter -> keyword-only, item into a nested dict, the parts of a slice rotated / swapped) enumerated exhaustively per query. Every pair is non-trivial; "
    "distinct by (query, edit) and (query, rendering)."
)
ASSUMPTIONS = [
    "Structural identity = same node types, same _fields values recursively, constants compared by type and repr "
    "(independent implementation; absent optional fields equal None).",
    "The process/time independence is sampled with one child process per worker started with a different PYTHONHASHSEED.",
]
BUDGET = {"quick": (8, 125), "thorough": (16, 2500)}

_CFG = untyped.Cfg(const_kinds="iifssby")


@st.composite
def _case(draw, maxdepth):
    n = draw(st.integers(1, 3))
    if draw(st.integers(0, 19)) == 0:
        n = draw(st.integers(8, 14))  # long chains: differences far from the start of the dump
    stages = []
    for _ in range(n):
        op = draw(st.sampled_from(["Select", "Select", "SelectMany", "Where"]))
        p = draw(st.sampled_from(["e", "j", "x", "value"]))
        body = draw(untyped.expr(draw(st.integers(1, maxdepth)), [p], _CFG))
        if op == "Where":
            body = f"{body} > {draw(st.integers(0, 3))}"
        stages.append([op, p, body])
    noise = draw(st.lists(st.integers(0, 5), min_size=1, max_size=12))
    return {"stages": stages, "noise": noise, "offset": draw(st.integers(0, 30))}


def strategy(tier):
    return _case(3 if tier == "quick" else 4)


# ------------------------------------------------------------------------------------------------
# independent structural equality


def struct_eq(a, b) -> bool:
    if isinstance(a, ast.AST) or isinstance(b, ast.AST):
        if type(a) is not type(b):
            return False
        return all(struct_eq(getattr(a, f, None), getattr(b, f, None)) for f in a._fields)
    if isinstance(a, list) or isinstance(b, list):
        if not (isinstance(a, list) and isinstance(b, list)) or len(a) != len(b):
            return False
        return all(struct_eq(x, y) for x, y in zip(a, b))
    return type(a) is type(b) and repr(a) == repr(b)


# ------------------------------------------------------------------------------------------------
# equal-structure renderings

_SEPS = ["", " ", "  ", "\n    ", " \n", "\t"]


def noisy(src: str, noise, offset: int) -> str:
    toks = [t for t in tokenize.generate_tokens(io.StringIO("(" + src + ")").readline)
            if t.type not in (tokenize.NEWLINE, tokenize.NL, tokenize.ENDMARKER, tokenize.INDENT, tokenize.DEDENT)]
    out = []
    prev = None
    for i, t in enumerate(toks):
        sep = _SEPS[noise[i % len(noise)]]
        if prev is not None:
            need = (prev.type in (tokenize.NAME, tokenize.NUMBER, tokenize.STRING) and t.type in (tokenize.NAME, tokenize.NUMBER, tokenize.STRING))
            # keep multi-character operators and keyword/number boundaries apart
            if need and sep == "":
                sep = " "
            if prev.type == tokenize.OP and t.type == tokenize.OP and sep == "":
                sep = " " if (prev.string + t.string) in ("**", "//", "<=", ">=", "==", "!=", "->", ":=", "<<", ">>", "<>") or prev.string in "*/<>=!" else ""
            if prev.type == tokenize.NUMBER and t.string == ".":
                sep = sep or " "
            if prev.string == "." and t.type == tokenize.NUMBER:
                sep = ""
            out.append(sep)
        out.append(t.string)
        prev = t
    return "\n" * offset + "(" + "".join(out) + ")"


def _query_text(stages, root="ds"):
    q = root
    for op, p, body in stages:
        q = f"{op}({q}, lambda {p}: {body})"
    return q


# ------------------------------------------------------------------------------------------------
# single edits


def _lookalikes(s):
    """strings different from s that a text normalisation (NFKC / NFC / NFD / case folding) would map to the same text"""
    import unicodedata

    out = []
    for form in ("NFKC", "NFC", "NFD", "NFKD"):
        t = unicodedata.normalize(form, s)
        if t != s:
            out.append(t)
    for i, c in enumerate(s):
        if c.isascii() and c.isalnum():
            out.append(s[:i] + chr(ord(c) + 0xFEE0) + s[i + 1:])  # full-width form of the first ASCII letter/digit
            break
    if "fi" in s:
        out.append(s.replace("fi", "\ufb01", 1))
    if "e" in s:
        out.append(s.replace("e", "e\u0301", 1).replace("e\u0301", "\u00e9", 1) if False else s.replace("e", "\u00e9", 1))
        out.append(s.replace("e", "e\u0301", 1))
    return [t for t in dict.fromkeys(out) if t != s]


REBRACKET = {"move-next-sibling-into-child", "move-last-grandchild-out", "curry-last-arg", "uncurry", "binop-reassociate", "compare-renest",
             "compare-flatten", "call-without-args->callee", "slice-parts-rotated", "slice-bounds-swapped", "last-param->keyword-only", "move-next-item-into-child-dict"}


def edits(tree):
    """yield (description, mutated deep copy) for every single edit of the tree"""
    nodes = list(ast.walk(tree))
    for idx, n in enumerate(nodes):
        def mut(fn, desc):
            t = copy.deepcopy(tree)
            m = list(ast.walk(t))[idx]
            r = fn(m, t)
            return (f"{desc}@{idx}:{type(n).__name__}", r if r is not None else t)

        if isinstance(n, ast.Name):
            yield mut(lambda m, t: setattr(m, "id", m.id + "_x"), "rename-name")
            for la in _lookalikes(n.id)[:2]:  # hand-built identifiers need not be normalised
                yield mut(lambda m, t, la=la: setattr(m, "id", la), "lookalike-name")
        if isinstance(n, ast.Attribute):
            yield mut(lambda m, t: setattr(m, "attr", m.attr + "_x"), "rename-attr")
            for la in _lookalikes(n.attr)[:2]:
                yield mut(lambda m, t, la=la: setattr(m, "attr", la), "lookalike-attr")
        if isinstance(n, ast.arg):
            yield mut(lambda m, t: setattr(m, "arg", m.arg + "_x"), "rename-param")
        if isinstance(n, ast.keyword):
            yield mut(lambda m, t: setattr(m, "arg", (m.arg or "") + "_x"), "rename-keyword")
        if isinstance(n, ast.Constant):
            v = n.value
            alts = []
            if isinstance(v, bool):
                alts = [not v, int(v), str(v)]
            elif isinstance(v, int):
                alts = [v + 1, float(v) if abs(v) < 2**53 else str(v), str(v), v == 1 if v in (0, 1) else -v - 1]
            elif isinstance(v, float):
                alts = [v + 1.0 if v + 1.0 != v else v / 2 + 1, str(v), -v]
            elif isinstance(v, str):
                alts = [v + "x", v.encode("utf-8"), v + " ", v.upper() if v.upper() != v else v + "U"] + _lookalikes(v)
                if "\u00e9" in v or "e\u0301" in v:  # composed vs decomposed form of the same letter
                    alts.append(v.replace("\u00e9", "e\u0301") if "\u00e9" in v else v.replace("e\u0301", "\u00e9"))
            elif isinstance(v, bytes):
                alts = [v + b"x", v.decode("latin-1")]
            for a in alts:
                yield mut(lambda m, t, a=a: setattr(m, "value", a), f"const:{type(v).__name__}->{type(a).__name__}")
        if isinstance(n, ast.Call):
            if len(n.args) >= 2:
                yield mut(lambda m, t: m.args.reverse(), "reverse-args")
            if n.args:
                yield mut(lambda m, t: m.args.pop(), "drop-last-arg")
            if len(n.keywords) >= 2:
                yield mut(lambda m, t: m.keywords.reverse(), "reverse-keywords")
            if n.keywords and n.keywords[0].arg:
                yield mut(lambda m, t: (m.args.append(m.keywords[0].value), m.keywords.pop(0)) and None, "keyword->positional")
            yield mut(lambda m, t: m.args.append(ast.Constant(value=0)), "add-arg")
            if n.args and not isinstance(n.args[0], ast.Starred):
                # one more level of nesting that a clean-up pass would take away again: an empty metadata block, an identity Select
                yield mut(lambda m, t: m.args.__setitem__(0, ast.Call(func=ast.Name(id="MetaData", ctx=ast.Load()), args=[m.args[0], ast.Dict(keys=[], values=[])], keywords=[])),
                          "wrap-arg-in-empty-MetaData")
                yield mut(lambda m, t: m.args.__setitem__(0, ast.Call(func=ast.Name(id="Select", ctx=ast.Load()), args=[m.args[0], ast.parse("lambda x: x", mode="eval").body], keywords=[])),
                          "wrap-arg-in-identity-Select")
        if isinstance(n, ast.BinOp):
            yield mut(lambda m, t: setattr(m, "op", ast.Sub() if isinstance(m.op, ast.Add) else ast.Add()), "binop-op")
            yield mut(lambda m, t: (lambda l, r: (setattr(m, "left", r), setattr(m, "right", l)))(m.left, m.right) and None, "binop-swap")
        if isinstance(n, ast.BoolOp):
            yield mut(lambda m, t: setattr(m, "op", ast.Or() if isinstance(m.op, ast.And) else ast.And()), "boolop-op")
            yield mut(lambda m, t: m.values.reverse(), "boolop-reverse")
        if isinstance(n, ast.Compare):
            yield mut(lambda m, t: m.ops.__setitem__(0, ast.Lt() if not isinstance(m.ops[0], ast.Lt) else ast.Gt()), "compare-op")
        if isinstance(n, ast.UnaryOp) and isinstance(n.op, ast.USub) and isinstance(n.operand, ast.Constant) \
                and type(n.operand.value) in (int, float):
            # same text when unparsed, different structure: Constant(-v) vs UnaryOp(USub, Constant(v))
            def fold(m, t, idx=idx):
                for p in ast.walk(t):
                    for f in p._fields:
                        v = getattr(p, f, None)
                        if v is m:
                            setattr(p, f, ast.Constant(value=-m.operand.value))
                        elif isinstance(v, list):
                            for i, c in enumerate(v):
                                if c is m:
                                    v[i] = ast.Constant(value=-m.operand.value)
            yield mut(fold, "fold-negative-constant")
        if isinstance(n, ast.UnaryOp):
            yield mut(lambda m, t: setattr(m, "op", ast.UAdd() if isinstance(m.op, ast.USub) else ast.USub()), "unary-op")
        if isinstance(n, ast.IfExp):
            yield mut(lambda m, t: (lambda a, b: (setattr(m, "body", b), setattr(m, "orelse", a)))(m.body, m.orelse) and None, "ifexp-swap")
        if isinstance(n, (ast.Tuple, ast.List)):
            if len(n.elts) >= 2:
                yield mut(lambda m, t: m.elts.reverse(), "reverse-elts")
            yield mut(lambda m, t: m.elts.append(ast.Constant(value=0)), "add-elt")
        if isinstance(n, ast.Dict) and len(n.keys) >= 2:
            yield mut(lambda m, t: m.values.reverse(), "dict-values-reverse")
        if isinstance(n, ast.Lambda):
            yield mut(lambda m, t: setattr(m, "body", ast.Tuple(elts=[m.body], ctx=ast.Load())), "wrap-body")
            if isinstance(n.body, ast.Attribute):
                yield mut(lambda m, t: setattr(m, "body", m.body.value), "unwrap-body")
        if isinstance(n, ast.Subscript):
            yield mut(lambda m, t: (lambda a, b: (setattr(m, "value", b), setattr(m, "slice", a)))(m.value, m.slice) and None, "subscript-swap")
    # re-bracketing edits: the same leaves in the same order, grouped differently (what an ambiguous serialisation of
    # lists / nested nodes cannot tell apart)
    LISTF = {ast.Call: "args", ast.Tuple: "elts", ast.List: "elts", ast.BoolOp: "values"}
    for idx, n in enumerate(nodes):
        f = LISTF.get(type(n))
        if f is None:
            continue
        lst = getattr(n, f)
        for i, c in enumerate(lst):
            g = LISTF.get(type(c))
            if g is None:
                continue
            if i + 1 < len(lst) and (not isinstance(n, ast.BoolOp) or len(lst) > 2):
                # f(g(a), b, c) -> f(g(a, b), c): the next sibling becomes the child's last element
                def into(m, t, f=f, g=g, i=i):
                    sib = getattr(m, f).pop(i + 1)
                    getattr(getattr(m, f)[i], g).append(sib)
                yield mut(into, "move-next-sibling-into-child")
            if getattr(c, g) and not (isinstance(c, ast.BoolOp) and len(getattr(c, g)) <= 2):
                # f(g(a, b), c) -> f(g(a), b, c): the child's last element becomes the next sibling
                def outof(m, t, f=f, g=g, i=i):
                    last = getattr(getattr(m, f)[i], g).pop()
                    getattr(m, f).insert(i + 1, last)
                yield mut(outof, "move-last-grandchild-out")
        if isinstance(n, ast.Call) and len(n.args) >= 2 and not n.keywords:
            # f(a, b) -> f(a)(b): currying moves the boundary between two argument lists
            def curry(m, t):
                last = m.args.pop()
                m.func = ast.Call(func=m.func, args=m.args, keywords=[])
                m.args = [last]
            yield mut(curry, "curry-last-arg")
        if isinstance(n, ast.Call) and isinstance(n.func, ast.Call) and not n.keywords and not n.func.keywords:
            def uncurry(m, t):
                m.args = m.func.args + m.args
                m.func = m.func.func
            yield mut(uncurry, "uncurry")
    for idx, n in enumerate(nodes):
        if isinstance(n, ast.BinOp) and isinstance(n.left, ast.BinOp):
            # (a + b) - c  ->  a + (b - c)
            def reassoc(m, t):
                a, op1, b, op2, c = m.left.left, m.left.op, m.left.right, m.op, m.right
                m.left, m.op, m.right = a, op1, ast.BinOp(left=b, op=op2, right=c)
            yield mut(reassoc, "binop-reassociate")
        if isinstance(n, ast.Compare) and len(n.ops) >= 2:
            # a < b < c  ->  a < (b < c)
            def renest(m, t):
                inner = ast.Compare(left=m.comparators[0], ops=m.ops[1:], comparators=m.comparators[1:])
                m.ops, m.comparators = m.ops[:1], [inner]
            yield mut(renest, "compare-renest")
        if isinstance(n, ast.Compare) and len(n.ops) == 1 and isinstance(n.comparators[0], ast.Compare):
            def flatten(m, t):
                inner = m.comparators[0]
                m.ops, m.comparators = m.ops + inner.ops, [inner.left] + inner.comparators
            yield mut(flatten, "compare-flatten")
        if isinstance(n, ast.Slice) and len({ast.dump(x) if x is not None else None for x in (n.lower, n.upper, n.step)}) > 1:
            # x[a:] -> x[:a] -> x[::a]: the same expressions in other parts of the slice
            def rotate(m, t):
                m.lower, m.upper, m.step = m.step, m.lower, m.upper
            yield mut(rotate, "slice-parts-rotated")
            def swap(m, t):
                m.lower, m.upper = m.upper, m.lower
            if ast.dump(n.lower) if n.lower is not None else None != (ast.dump(n.upper) if n.upper is not None else None):
                yield mut(swap, "slice-bounds-swapped")
        if isinstance(n, ast.Call) and not n.args and not n.keywords:
            # g() -> g : a node whose list fields are all empty vs the bare callee
            def uncall(m, t):
                for p in ast.walk(t):
                    for fld in p._fields:
                        v = getattr(p, fld, None)
                        if v is m:
                            setattr(p, fld, m.func)
                        elif isinstance(v, list):
                            for k, c in enumerate(v):
                                if c is m:
                                    v[k] = m.func
                return m.func if t is m else None
            yield mut(uncall, "call-without-args->callee")
        if isinstance(n, ast.Lambda) and len(n.args.args) >= 2 and not n.args.defaults:
            # lambda a, b: ...  ->  lambda a, *, b: ...
            def kwonly(m, t):
                a = m.args.args.pop()
                m.args.kwonlyargs.append(a)
                m.args.kw_defaults.append(None)
            yield mut(kwonly, "last-param->keyword-only")
        if isinstance(n, ast.Dict) and len(n.keys) >= 2 and isinstance(n.values[0], ast.Dict):
            # {'a': {'x': 1}, 'b': 2} -> {'a': {'x': 1, 'b': 2}}
            def dict_into(m, t):
                k, v = m.keys.pop(1), m.values.pop(1)
                m.values[0].keys.append(k)
                m.values[0].values.append(v)
            yield mut(dict_into, "move-next-item-into-child-dict")
    # tuple <-> list, performed at the parent so that the node type changes
    for idx, n in enumerate(nodes):
        for f in getattr(n, "_fields", ()):
            v = getattr(n, f, None)
            kids = v if isinstance(v, list) else [v]
            for ci, c in enumerate(kids):
                if isinstance(c, ast.Tuple) or isinstance(c, ast.List):
                    t = copy.deepcopy(tree)
                    m = list(ast.walk(t))[idx]
                    old = getattr(m, f)[ci] if isinstance(v, list) else getattr(m, f)
                    new = (ast.List if isinstance(old, ast.Tuple) else ast.Tuple)(elts=old.elts, ctx=ast.Load())
                    if isinstance(v, list):
                        getattr(m, f)[ci] = new
                    else:
                        setattr(m, f, new)
                    yield (f"tuple<->list@{idx}.{f}", t)


# ------------------------------------------------------------------------------------------------
# child process with another hash seed

_child = None

_SERVER = r"""
import sys, ast
sys.path.insert(0, sys.argv[1])
from func_adl.ast.ast_hash import calc_ast_hash
for line in sys.stdin:
    src = bytes.fromhex(line.strip()).decode('utf-8')
    try:
        print(calc_ast_hash(ast.parse(src, mode='eval').body), flush=True)
    except Exception as e:
        print('ERR ' + type(e).__name__, flush=True)
"""


def _child_hash(src: str) -> str:
    global _child
    if _child is None or _child.poll() is not None:
        env = dict(os.environ, PYTHONHASHSEED="4242")
        _child = subprocess.Popen([sys.executable, "-c", _SERVER, REPO], stdin=subprocess.PIPE, stdout=subprocess.PIPE, text=True, env=env)
        atexit.register(lambda: _child and _child.kill())
    _child.stdin.write(src.encode("utf-8").hex() + "\n")
    _child.stdin.flush()
    return _child.stdout.readline().strip()


# ------------------------------------------------------------------------------------------------


def _safe_hash(tree):
    from func_adl.ast.ast_hash import calc_ast_hash

    try:
        return calc_ast_hash(tree), None
    except Exception as e:
        return None, f"{type(e).__name__}: {e}"


def check(case) -> Result:
    from func_adl import EventDataset

    stages = case["stages"]
    text = _query_text(stages)
    r = Result(sample=text, key=text)
    r.nontrivial = True
    tree = ast.parse(text, mode="eval").body
    h0, err = _safe_hash(tree)
    if err:
        return r.fail(f"calc_ast_hash raised {err} on {text!r}")
    if not (isinstance(h0, str) and h0):
        return r.fail(f"hash is {h0!r}")
    n_eq = 0
    n_diff = 0

    def must_equal(other, what):
        nonlocal n_eq
        n_eq += 1
        r.extra_keys.append(f"eq|{text}|{what}")
        if not struct_eq(tree, other):
            raise AssertionError(f"harness: rendering '{what}' is not structurally equal")
        h, e = _safe_hash(other)
        if e:
            return f"calc_ast_hash raised {e} on rendering {what}"
        if h != h0:
            return f"hash differs for structurally identical query ({what}): {text!r}"
        return None

    # (1) formatting / positions
    nz = noisy(text, case["noise"], case["offset"])
    try:
        t2 = ast.parse(nz.lstrip("\n") if False else nz, mode="eval").body
    except SyntaxError as e:  # the noise layer produced invalid text: harness problem
        raise AssertionError(f"harness: noisy rendering does not parse: {nz!r}: {e}")
    for other, what in ((t2, "noisy-format"), (ast.parse(ast.unparse(tree), mode="eval").body, "unparse-roundtrip")):
        m = must_equal(other, what)
        if m:
            return r.fail(m)
    # (2) non-field annotations
    t3 = copy.deepcopy(tree)
    for i, n in enumerate(ast.walk(t3)):
        if i % 3 == 0:
            n._q_metadata = {"k": i}
        if i % 4 == 0:
            n._func_adl_executor = check
            n._eds_object = object()
        if i % 5 == 0:
            n.lineno, n.col_offset, n.end_lineno, n.end_col_offset = 100 + i, i, 100 + i, i + 1
    m = must_equal(t3, "annotated")
    if m:
        return r.fail(m)
    # (2b) the same structure built another way: every node created empty, its fields assigned in REVERSE order (keyword
    # arguments of a node constructor may come in any order; the library's own passes build nodes that way)
    def rebuild(n):
        if isinstance(n, list):
            return [rebuild(x) for x in n]
        if not isinstance(n, ast.AST):
            return n
        new = type(n)()
        for f in reversed(n._fields):
            if hasattr(n, f):
                setattr(new, f, rebuild(getattr(n, f)))
        return new

    m = must_equal(rebuild(tree), "nodes-built-with-fields-in-reverse-order")
    if m:
        return r.fail(m)
    # (3) another process, another hash seed
    hc = _child_hash(text)
    n_eq += 1
    r.extra_keys.append(f"eq|{text}|child-process")
    if hc != h0:
        return r.fail(f"hash differs between processes ({h0} vs {hc}) for {text!r}")

    # (4) the way the lambda was supplied, the dataset object, QMetaData
    class DS(EventDataset):
        async def execute_result_async(self, a, title=None):
            return a

    def build(ds, how, qmd):
        s = ds
        if how == "callable":
            lines = ["def build(ds):", "    s = ds"]
            for op, p, body in stages:
                lines.append(f"    s = s.{op}(lambda {p}: {body})")
            lines.append("    return s")
            with srcgen.module("\n".join(lines)) as mod:
                return mod.build(ds)
        for i, (op, p, body) in enumerate(stages):
            lam = f"lambda {p}: {body}"
            arg = lam if how == "string" else ast.parse(lam, mode="eval").body
            if qmd and i == 0:
                s = s.QMetaData({"note": 1})
            s = getattr(s, op)(arg)
            if qmd:
                s = s.QMetaData({"k" + str(i): [i]})
        return s

    built = {}
    for how, qmd in (("string", False), ("ast", False), ("callable", False), ("string", True)):
        try:
            built[(how, qmd)] = build(DS(), how, qmd).query_ast
        except Exception as e:
            r.labels.append(f"build-refused:{how}:{type(e).__name__}")
    if ("string", False) in built:
        base = built[("string", False)]
        hb, e = _safe_hash(base)
        if e:
            return r.fail(f"calc_ast_hash raised {e} on the built query {text!r}")
        for k, q in built.items():
            if k == ("string", False):
                continue
            if not struct_eq(base, q):
                r.labels.append(f"supply-form-structure-differs:{k[0]}")  # C10/C16 territory, not the hash's
                continue
            n_eq += 1
            r.extra_keys.append(f"eq|{text}|{k}")
            h, e = _safe_hash(q)
            if e or h != hb:
                return r.fail(f"hash differs for the same query supplied as {k}: {e or ''} {text!r}")

    # (5) every single edit
    for desc, mt in edits(tree):
        eq = struct_eq(tree, mt)
        h, e = _safe_hash(mt)
        if e:
            return r.fail(f"calc_ast_hash raised {e} on edit {desc} of {text!r}")
        if eq:
            n_eq += 1
            if h != h0:
                return r.fail(f"edit {desc} keeps the structure but changes the hash: {text!r}")
        else:
            n_diff += 1
            r.extra_keys.append(f"ne|{text}|{desc}")
            kind = desc.split("@")[0]
            if kind in REBRACKET and ("edit:" + kind) not in r.labels:
                r.labels.append("edit:" + kind)
            if h == h0:
                return r.fail(f"edit {desc} changes the structure but not the hash: {text!r} vs {ast.unparse(ast.fix_missing_locations(mt))!r}")
    r.counts = {"pairs-equal-structure": n_eq, "pairs-different-structure": n_diff}
    kinds = {type(n).__name__ for n in ast.walk(tree)}
    for k in ("IfExp", "Dict", "Lambda", "Subscript", "BoolOp", "Compare", "UnaryOp"):
        if k in kinds:
            r.labels.append("has:" + k)
    if any(isinstance(n, ast.Constant) and isinstance(n.value, str) and any(ord(c) > 255 for c in n.value) for n in ast.walk(tree)):
        r.labels.append("non-latin1-text")
    return r


def selftest():
    a = ast.parse("f(x, 1)", mode="eval").body
    assert struct_eq(a, ast.parse("f( x,\n 1 )", mode="eval").body)
    assert not struct_eq(a, ast.parse("f(x, 1.0)", mode="eval").body)
    assert not struct_eq(a, ast.parse("f(x, True)", mode="eval").body)
    assert not struct_eq(ast.parse("(a, b)", mode="eval").body, ast.parse("[a, b]", mode="eval").body)
    n = noisy("f(x, 1) + a.b ** 2 if not c else 'a b'", [0, 3, 1, 0, 5], 2)
    assert struct_eq(ast.parse(n, mode="eval").body, ast.parse("f(x, 1) + a.b ** 2 if not c else 'a b'", mode="eval").body), n
    assert len(list(edits(a))) >= 8
