"""C09 - callbacks fire at every matching call site and their metadata reaches the stream.

case = {"cbs": {"cls:Evt": rw, "cls:Jet": rw, "cls:Trk": rw, "m:Evt.jets": rw, "m:Evt.met": rw, "m:Jet.pt": rw, "m:Jet.trks": rw,
                "m:Trk.pt": rw, "fn": rw, "prop:Jet.attr": rw},     rw in {null (no callback), "none", "rename", "append"}
        "stages": [[op, param, IR], ...]}
IR: ["site", recvIR, cls, meth, marker]  ["fn", marker]  ["psite", recvIR, paramsText, marker]  ["var", n]
    ["op", opname, srcIR, param, bodyIR] ["count", srcIR] ["first", srcIR] ["idx", srcIR, k] ["bin", op, a, b] ["tup", [..]] ["dict", [[k, v]..]] ["const", text]
Every call site carries a unique integer marker as its (only) argument.
"""
import ast
import copy
from typing import Iterable, Optional  # noqa: F401

from hypothesis import strategies as st

from vf.common.harness import Result

ID = "C09"
RULE = (
    "Generated callback placements over a typed Evt/Jet/Trk model: class-level callbacks, method-level callbacks, both, a "
    "func_adl_callable processor and a func_adl_parameterized_call property (0-3 literal parameters, also a one-element tuple, a tuple inside a one-element tuple, a list), each optionally "
    "rewriting the call site (rename the method/function, append a constant argument); queries with uniquely marked call "
    "sites at depth 0-3 inside Select/Where/SelectMany lambdas of the stream and of typed collections, as the root of a "
    "nested lambda body, inside arithmetic, as positional or keyword argument of a registered / unregistered function, in tuples and dicts (keys that are identifiers or not: blanks, keywords, empty, repeated), across 1-2 stages; some registered callbacks unused. "
    "Non-trivial = >=2 callback sites with >=1 at depth >=2, or a rewrite at depth >=1. Distinct by placement + query."
)
ASSUMPTIONS = [
    "Each callback must fire at least once per matching site (duplicates are labelled, not forbidden); nothing else may fire.",
    "MetaData is looked for on the args[0] chain between the new stream's operator node and the parent stream's node.",
    "Methods take exactly one required int argument (the marker) so that C07's default handling does not interfere.",
]
BUDGET = {"quick": (6, 800), "thorough": (16, 6000)}

KEYS = ["cls:Evt", "cls:Jet", "cls:Trk", "m:Evt.jets", "m:Evt.met", "m:Jet.pt", "m:Jet.trks", "m:Trk.pt", "fn", "prop:Jet.attr", "cls:Base", "m:Base.eta", "fn2", "m:Jet.calib", "m:Evt.lead"]
METHODS = {"Base": [("eta", "float")], "Evt": [("met", "float"), ("jets", "Iterable[Jet]"), ("lead", "Optional[Jet]")], "Jet": [("pt", "float"), ("trks", "Iterable[Trk]"), ("calib", "float")], "Trk": [("pt", "float")]}
BASES = {"Jet": "Base", "Trk": "Base"}  # Jet and Trk inherit eta() from Base


def site_keys(cbs, cls, meth):
    """callbacks a call site obj.meth() with obj of class cls must trigger, in order: the class-level callback the class is
    registered with (its own, else the one it inherits, as the decorator sets a class attribute), then the method's own"""
    own = meth in [m for m, _ in METHODS[cls]]
    ckey = f"cls:{cls}" if cbs.get(f"cls:{cls}") else (f"cls:{BASES[cls]}" if cls in BASES else f"cls:{cls}")
    mkey = f"m:{cls}.{meth}" if own else f"m:{BASES[cls]}.{meth}"
    return [k for k in (ckey, mkey) if cbs.get(k)]


def _scalar_of(draw, cls):
    if cls == "Jet" and draw(st.integers(0, 9)) < 2:
        return "calib"
    if cls in BASES and draw(st.integers(0, 9)) < 4:
        return "eta"
    return SCALAR[cls]
CHILD = {"Evt": ("jets", "Jet"), "Jet": ("trks", "Trk")}
SCALAR = {"Evt": "met", "Jet": "pt", "Trk": "pt"}


@st.composite
def _val(draw, var, cls, depth, names, ctr, outer=()):
    def mark():
        ctr[0] += 1
        return 100 + ctr[0]

    if outer and draw(st.integers(0, 4)) == 0:
        # a call site on a variable of an ENCLOSING lambda (the nested lambda's own variable does not hide it)
        ovar, ocls = draw(st.sampled_from(list(outer)))
        mine = draw(_val(var, cls, 0, names, ctr))
        return ["bin", draw(st.sampled_from(["+", "*"])), mine, ["site", ["var", ovar], ocls, _scalar_of(draw, ocls), mark()]]

    c = draw(st.integers(0, 9)) if depth > 0 else draw(st.integers(0, 1))
    if cls == "Evt" and depth > 0 and draw(st.integers(0, 9)) == 0:
        # an object that may be missing (a method annotated Optional[Jet]): a Jet as far as methods and callbacks go
        return ["site", ["site", ["var", var], "Evt", "lead", mark()], "Jet", _scalar_of(draw, "Jet"), mark()]
    if c <= 1:
        return ["site", ["var", var], cls, _scalar_of(draw, cls), mark()]
    if c <= 5 and cls in CHILD:
        coll, child = CHILD[cls]
        src = ["site", ["var", var], cls, coll, mark()]
        v2 = draw(st.sampled_from(names))
        inner = draw(_val(v2, child, depth - 1, names, ctr, tuple((n, c_) for n, c_ in tuple(outer) + ((var, cls),) if n != v2)))
        k = draw(st.integers(0, 4))
        if k == 0:
            return ["count", ["op", "Select", src, v2, inner]]
        if k == 1 and draw(st.integers(0, 2)) == 0:
            # a lambda called where it is written (a helper that could not be substituted; the keyword-only parameter keeps it in
            # place): its parameter is an object of the argument's class, call sites in its body are call sites
            return ["called", v2, ["first", src], inner]
        if k == 1:
            return ["first", ["op", "Select", src, v2, inner]]
        if k == 2:
            return ["count", ["op", "Where", src, v2, ["bin", ">", inner, ["const", "1"]]]]
        if k == 3 and child in CHILD:
            c2, g = CHILD[child]
            return ["count", ["op", "SelectMany", src, v2, ["site", ["var", v2], child, c2, mark()]]]
        if draw(st.booleans()):
            # an element picked out of the typed sequence by a constant index (also a negative one) is an object of the element class
            return ["site", ["idx", src, draw(st.sampled_from([0, 1, -1, -2]))], child, _scalar_of(draw, child), mark()]
        if draw(st.integers(0, 3)) == 0:
            # the receiver is the RESULT of a lambda that is called where it is written: an object of the class of what it returns
            return ["site", ["calledobj", v2, ["first", src]], child, _scalar_of(draw, child), mark()]
        return ["site", ["first", src], child, _scalar_of(draw, child), mark()]
    if c == 6:
        if draw(st.booleans()):
            # a registered function with a defaulted second parameter (its processor may hand back a SHORTER call)
            return ["fn2", mark(), draw(st.sampled_from([None, "2.5", "0.25"]))]
        return ["fn", mark()]
    if c == 7 and cls == "Jet":
        params = draw(st.sampled_from(["5", "'x'", "5, 'x'", "1, 2, 3", "'a', 2", "(1, 2)", "'x',", "(5,)", "('p', 'q'),", "()", "[1, 2]"]))
        return ["psite", ["var", var], params, mark()]
    if c == 8 and draw(st.booleans()):
        # the value is handed to a function, positionally or BY KEYWORD: an unregistered back-end function (left as written) or a
        # registered one without processor (normalised to positional form); call sites inside the argument are still sites
        inner = draw(_val(var, cls, depth - 1, names, ctr, outer))
        return ["wrap", draw(st.sampled_from(["sqrt", "fn3"])), draw(st.sampled_from(["pos", "kw", "kw", "kw2"])), inner]
    if c == 8:
        return ["bin", draw(st.sampled_from(["+", "*"])), draw(_val(var, cls, depth - 1, names, ctr, outer)), draw(_val(var, cls, depth - 1, names, ctr, outer))]
    return ["site", ["var", var], cls, _scalar_of(draw, cls), mark()]


@st.composite
def _case(draw, maxdepth):
    cbs = {k: draw(st.sampled_from([None, None, "none", "none", "rename", "append"])) for k in KEYS}
    if draw(st.booleans()):
        cbs["fn2"] = "drop"  # the processor moves the second argument away and returns a call with one argument
    names = draw(st.sampled_from([["e", "j", "t"], ["e"], ["a", "b"]]))
    ctr = [0]
    stages = []
    p = draw(st.sampled_from(names))
    depth = draw(st.integers(0, maxdepth))
    k = draw(st.integers(0, 6))
    if k <= 2:
        op = draw(st.sampled_from(["Select", "Select", "Where", "SelectMany"]))
        body = draw(_val(p, "Evt", depth, names, ctr))
        if op == "Where":
            body = ["bin", ">", body, ["const", "0"]]
        elif op == "SelectMany":
            v2 = draw(st.sampled_from(names))
            ctr[0] += 1
            body = ["op", "Select", ["site", ["var", p], "Evt", "jets", 100 + ctr[0]], v2, draw(_val(v2, "Jet", depth, names, ctr))]
        stages.append([op, p, body])
    elif k == 3:
        items = [draw(_val(p, "Evt", depth, names, ctr)) for _ in range(draw(st.integers(1, 3)))]
        # dictionary keys need not be identifiers (column titles): 'jet pt', 'class', '', 'met-scaled', a repeated key
        odd = draw(st.booleans())
        keys = [draw(st.sampled_from(["jet pt", "class", "", "met-scaled", "1x", "k0", "k0"])) if odd and draw(st.booleans()) else f"k{i}" for i in range(len(items))]
        stages.append(["Select", p, ["tup", items] if draw(st.booleans()) else ["dict", [[kk, v] for kk, v in zip(keys, items)]]])
    else:
        # collection (or dict holding it) carried to a second stage
        ctr[0] += 1
        first = ["site", ["var", p], "Evt", "jets", 100 + ctr[0]]
        p2, v2 = draw(st.sampled_from(names)), draw(st.sampled_from(names))
        inner = draw(_val(v2, "Jet", depth, names, ctr))
        if k == 4:
            stages.append(["Select", p, first])
            stages.append([draw(st.sampled_from(["Select", "SelectMany"])), p2, ["op", "Select", ["var", p2], v2, inner]])
        elif k == 5:
            stages.append(["Select", p, ["dict", [["js", first], ["m", draw(_val(p, "Evt", 0, names, ctr))]]]])
            stages.append(["Select", p2, ["count", ["op", "Where", ["fld", ["var", p2], "js"], v2, ["bin", ">", inner, ["const", "1"]]]]])
        else:
            stages.append(["SelectMany", p, first])
            stages.append([draw(st.sampled_from(["Select", "Where"])), p2, ["bin", ">", draw(_val(p2, "Jet", depth, names, ctr)), ["const", "0"]]])
    return {"cbs": cbs, "stages": stages}


def strategy(tier):
    return _case(2 if tier == "quick" else 3)


# ------------------------------------------------------------------------------------------------


def _rw_method(name, rw):
    return name + "_r" if rw == "rename" else name


def render(ir, cbs, mode):
    """mode 'written' | 'expected' (all rewrites of the configured callbacks applied, [param] subscripts removed)"""
    R = lambda x: render(x, cbs, mode)  # noqa: E731
    k = ir[0]
    if k == "var":
        return ir[1]
    if k == "const":
        return ir[1]
    if k == "site":
        _, recv, cls, meth, marker = ir
        if mode == "written":
            return f"{R(recv)}.{meth}({marker}, lambda q: q + 1)" if meth == "calib" else f"{R(recv)}.{meth}({marker})"
        name, args = meth, [str(marker)] + (["lambda q: q + 1"] if meth == "calib" else [])
        for key in site_keys(cbs, cls, meth):
            rw = cbs.get(key)
            name = _rw_method(name, rw)
            if rw == "append":
                args.append("77")
        return f"{R(recv)}.{name}({', '.join(args)})"
    if k == "fn":
        if mode == "written":
            return f"fn({ir[1]})"
        rw = cbs.get("fn")
        return f"{_rw_method('fn', rw)}({ir[1]}{', 77' if rw == 'append' else ''})"
    if k == "fn2":
        _, marker, second = ir
        if mode == "written":
            return f"fn2({marker}{', ' + second if second else ''})"
        rw = cbs.get("fn2")
        if rw == "drop":
            return f"fn2_s({marker})"
        return f"{_rw_method('fn2', rw)}({marker}, {second or '1.0'}{', 77' if rw == 'append' else ''})"
    if k == "wrap":
        _, fname, how, inner = ir
        if fname == "sqrt" or mode == "written":
            return {"pos": f"{fname}({R(inner)})", "kw": f"{fname}(x={R(inner)})", "kw2": f"{fname}(scale=2.0, x={R(inner)})"}[how]
        return f"fn3({R(inner)}, {'2.0' if how == 'kw2' else '1.0'})"
    if k == "psite":
        _, recv, params, marker = ir
        if mode == "written":
            return f"{R(recv)}.attr[{params}]({marker})"
        rw = cbs.get("prop:Jet.attr")
        name, args = "attr", [str(marker)]
        # class-level callbacks do not apply to parameterized properties' pseudo calls (not asserted either way)
        name = _rw_method(name, rw)
        if rw == "append":
            args.append("77")
        return f"{R(recv)}.{name}({', '.join(args)})"
    if k == "op":
        _, op, src, p, body = ir
        return f"{R(src)}.{op}(lambda {p}: {R(body)})"
    if k == "first":
        return f"{R(ir[1])}.First()"
    if k == "idx":
        return f"{R(ir[1])}[{ir[2]}]"
    if k == "count":
        return f"{R(ir[1])}.Count()"
    if k == "bin":
        return f"({R(ir[2])} {ir[1]} {R(ir[3])})"
    if k == "called":
        return f"(lambda {ir[1]}, *, z_=0: {R(ir[3])})({R(ir[2])})"
    if k == "calledobj":
        return f"(lambda {ir[1]}, *, z_=0: {ir[1]})({R(ir[2])})"
    if k == "tup":
        return "(" + ", ".join(R(x) for x in ir[1]) + ("," if len(ir[1]) == 1 else "") + ")"
    if k == "dict":
        return "{" + ", ".join(f"'{kk}': {R(v)}" for kk, v in ir[1]) + "}"
    if k == "fld":
        return f"{R(ir[1])}.{ir[2]}"
    raise ValueError(k)


def sites_of(ir, depth=0, root_of_lambda=False):
    """yield (kind, cls, meth, marker, params, lambda depth, is-root-of-nested-lambda-body)"""
    if not isinstance(ir, list) or not ir:
        return
    k = ir[0]
    if k == "site":
        yield ("site", ir[2], ir[3], ir[4], None, depth, root_of_lambda)
        yield from sites_of(ir[1], depth)
    elif k == "fn":
        yield ("fn", None, None, ir[1], None, depth, root_of_lambda)
    elif k == "fn2":
        yield ("fn2", None, None, ir[1], None, depth, root_of_lambda)
    elif k == "psite":
        yield ("psite", "Jet", "attr", ir[3], ir[2], depth, root_of_lambda)
        yield from sites_of(ir[1], depth)
    elif k == "op":
        yield from sites_of(ir[2], depth)
        yield from sites_of(ir[4], depth + 1, True)
    elif k in ("count", "first", "fld", "idx"):
        yield from sites_of(ir[1], depth)
    elif k == "called":
        yield from sites_of(ir[2], depth)
        yield from sites_of(ir[3], depth + 1)
    elif k == "calledobj":
        yield from sites_of(ir[2], depth)
    elif k == "wrap":
        yield from sites_of(ir[3], depth)
    elif k == "bin":
        yield from sites_of(ir[2], depth)
        yield from sites_of(ir[3], depth)
    elif k == "tup":
        for x in ir[1]:
            yield from sites_of(x, depth)
    elif k == "dict":
        for _, v in ir[1]:
            yield from sites_of(v, depth)


def build(cbs, log):
    from func_adl import ObjectStream, func_adl_callable, func_adl_callback, func_adl_parameterized_call

    def mk(id_, rw):
        def cb(s: ObjectStream, a: ast.Call):
            marker = a.args[0].value if a.args and isinstance(a.args[0], ast.Constant) else None
            log.append((id_, marker, None))
            a2 = a
            if rw == "rename":
                a2 = copy.copy(a)
                if isinstance(a.func, ast.Attribute):
                    a2.func = ast.Attribute(value=a.func.value, attr=a.func.attr + "_r", ctx=ast.Load())
                else:
                    a2.func = ast.Name(id=a.func.id + "_r", ctx=ast.Load())
            elif rw == "append":
                a2 = copy.copy(a)
                a2.args = list(a.args) + [ast.Constant(value=77)]
            elif rw == "drop":
                a2 = copy.copy(a)
                a2.func = ast.Name(id=a.func.id + "_s", ctx=ast.Load())
                a2.args = list(a.args[:1])
            return s.MetaData({"cb": id_, "site": marker}), a2

        return cb

    def mkp(id_, rw):
        inner = mk(id_, rw)

        def pcb(s, a, param):
            s2, a2 = inner(s, a)
            log[-1] = (log[-1][0], log[-1][1], param)
            return s2, a2, float

        return pcb

    from typing import Callable

    ns = {"Iterable": Iterable, "Optional": Optional, "Callable": Callable, "func_adl_callback": func_adl_callback, "func_adl_parameterized_call": func_adl_parameterized_call}
    src = []
    for cls in ("Base", "Trk", "Jet", "Evt"):
        if cbs.get(f"cls:{cls}"):
            ns[f"_cb_cls_{cls}"] = mk(f"cls:{cls}", cbs[f"cls:{cls}"])
            src.append(f"@func_adl_callback(_cb_cls_{cls})")
        src.append(f"class {cls}({BASES[cls]}):" if cls in BASES else f"class {cls}:")
        for meth, ret in METHODS[cls]:
            key = f"m:{cls}.{meth}"
            if cbs.get(key):
                ns[f"_cb_{cls}_{meth}"] = mk(key, cbs[key])
                src.append(f"    @func_adl_callback(_cb_{cls}_{meth})")
            # calib takes a lambda: a call site whose lambda argument cannot be followed (Jet is not a collection) is a call site still
            src.append(f"    def {meth}(self, tag: int{', f: Callable' if meth == 'calib' else ''}) -> '{ret}': ...")
        if cls == "Jet":
            if cbs.get("prop:Jet.attr"):
                ns["_cb_prop"] = mkp("prop:Jet.attr", cbs["prop:Jet.attr"])
                src.append("    @func_adl_parameterized_call(_cb_prop)")
            src.append("    @property\n    def attr(self): ...")
    src.append("def fn(tag: int) -> float: ...")
    src.append("def fn2(tag: int, scale: float = 1.0) -> float: ...")
    src.append("def fn3(x: float, scale: float = 1.0) -> float: ...")
    exec("\n".join(src), ns)
    func_adl_callable(None)(ns["fn3"])
    func_adl_callable(mk("fn", cbs["fn"]) if cbs.get("fn") else None)(ns["fn"])
    func_adl_callable(mk("fn2", cbs["fn2"]) if cbs.get("fn2") else None)(ns["fn2"])
    return ns


def _source_chain_metadata(q, stop):
    """MetaData dicts on the args[0] chain from q's source down to `stop` (the parent stream's node)"""
    out = []
    n = q.args[0]
    while n is not stop:
        if isinstance(n, ast.Call) and isinstance(n.func, ast.Name) and n.func.id == "MetaData":
            out.append(ast.literal_eval(n.args[1]))
            n = n.args[0]
        else:
            return out, False
    return out, True


def check(case) -> Result:
    from func_adl import EventDataset

    class DS(EventDataset):
        async def execute_result_async(self, a, title=None):
            return a

    cbs = case["cbs"]
    log = []
    ns = build(cbs, log)
    written = [f"lambda {p}: {render(b, cbs, 'written')}" for _, p, b in case["stages"]]
    r = Result(sample={"callbacks": {k: v for k, v in cbs.items() if v}, "query": [[s[0], w] for s, w in zip(case["stages"], written)]},
               key=repr(sorted(cbs.items())) + "|".join(written))

    s = DS(ns["Evt"])
    n_cb_sites, deep, rewrite_deep = 0, False, False
    for (op, p, body), w in zip(case["stages"], written):
        sites = list(sites_of(body))
        if any(k == "psite" and not cbs.get("prop:Jet.attr") for k, *_ in sites):
            r.labels.append("undecorated-property-call")
            uses_undecorated = True
        else:
            uses_undecorated = False
        expected = []  # (id, marker, params) in required relative order per site
        for kind, cls, meth, marker, params, depth, is_root in sites:
            ids = []
            if kind == "site":
                ids = site_keys(cbs, cls, meth)
            elif kind == "fn":
                ids = ["fn"] if cbs.get("fn") else []
            elif kind == "fn2":
                ids = ["fn2"] if cbs.get("fn2") else []
            elif kind == "psite":
                ids = ["prop:Jet.attr"] if cbs.get("prop:Jet.attr") else []
            if ids:
                n_cb_sites += 1
                if depth >= 2:
                    deep = True
                if depth >= 1 and any(cbs[i] in ("rename", "append", "drop") for i in ids):
                    rewrite_deep = True
                if is_root and depth >= 1 and any(cbs[i] in ("rename", "append", "drop") for i in ids):
                    r.labels.append("rewrite-at-root-of-nested-lambda")
            expected.append((ids, marker, ast.literal_eval(params) if params else None))
        del log[:]
        parent_node = s.query_ast
        try:
            s2 = getattr(s, op)(w)
        except ValueError as e:
            if uses_undecorated:
                return r  # a [param] call on a property without callback is a designed refusal
            return r.fail(f"{op}({w!r}) raised ValueError: {e}; callbacks {r.sample['callbacks']}")
        except Exception as e:
            return r.fail(f"{op}({w!r}) raised {type(e).__name__}: {e}; callbacks {r.sample['callbacks']}")
        if uses_undecorated:
            return r.fail(f"parameterized call on an undecorated property was accepted: {w}")
        # (1) every expected callback fired for its site, class before method; nothing else fired
        want = {(i, m) for ids, m, _ in expected for i in ids}
        got = [(i, m) for i, m, _ in log]
        missing = want - set(got)
        if missing:
            return r.fail(f"callback(s) {sorted(missing)} never fired for {op}({w!r}); log {got}; callbacks {r.sample['callbacks']}")
        extra = set(got) - want
        if extra:
            return r.fail(f"callback(s) {sorted(extra)} fired although no such call site is in {op}({w!r})")
        if len(got) != len(set(got)):
            r.labels.append("callback-fired-more-than-once")
        for ids, m, params in expected:
            if len(ids) == 2 and got.index((ids[0], m)) > got.index((ids[1], m)):
                return r.fail(f"method-level callback fired before class-level one for site {m}: {got}")
            if params is not None and ids:
                seen = [pp for i, mm, pp in log if i == "prop:Jet.attr" and mm == m]
                if not seen or any(pp != params or type(pp) is not type(params) for pp in seen):
                    return r.fail(f"parameterized callback for site {m} received {seen}, expected {params!r} by value")
        # (2) metadata on the source chain, upstream of the operator
        q = s2.query_ast
        if not (isinstance(q, ast.Call) and isinstance(q.func, ast.Name) and q.func.id == op):
            return r.fail(f"top node of the new stream is not the {op} operator: {ast.dump(q)[:150]}")
        mds, reached = _source_chain_metadata(q, parent_node)
        if not reached:
            return r.fail(f"source chain of the new stream does not lead back to the parent's node through MetaData wrappers only: {ast.unparse(q)[:300]}")
        have = {(d.get("cb"), d.get("site")) for d in mds}
        if not want <= have:
            return r.fail(f"MetaData of callback(s) {sorted(want - have)} is not on the source chain of the new stream: {ast.unparse(q)[:400]}")
        inside = [n for n in ast.walk(q.args[1]) if isinstance(n, ast.Call) and isinstance(n.func, ast.Name) and n.func.id == "MetaData"]
        if inside:
            return r.fail(f"MetaData wrapper inside the operator's lambda: {ast.unparse(q.args[1])[:300]}")
        # (3) the emitted lambda contains the rewritten call sites
        exp = ast.parse(f"lambda {p}: {render(body, cbs, 'expected')}", mode="eval").body
        if ast.dump(q.args[1]) != ast.dump(exp):
            return r.fail(f"wrote {w!r}; emitted {ast.unparse(q.args[1])!r}; with the callbacks' rewrites it should be {ast.unparse(exp)!r}; callbacks {r.sample['callbacks']}")
        s = s2
    r.labels.append(f"callback-sites:{min(n_cb_sites, 5)}")
    if deep:
        r.labels.append("site-at-depth>=2")
    if rewrite_deep:
        r.labels.append("rewrite-at-depth>=1")
    r.nontrivial = (n_cb_sites >= 2 and deep) or rewrite_deep
    return r


def selftest():
    ir = ["count", ["op", "Select", ["site", ["var", "e"], "Evt", "jets", 101], "j", ["site", ["var", "j"], "Jet", "pt", 102]]]
    cbs = {"cls:Jet": "rename", "m:Jet.pt": "append", "m:Evt.jets": "none"}
    assert render(ir, cbs, "written") == "e.jets(101).Select(lambda j: j.pt(102)).Count()"
    assert render(ir, cbs, "expected") == "e.jets(101).Select(lambda j: j.pt_r(102, 77)).Count()"
    ss = list(sites_of(ir))
    assert [(x[3], x[5], x[6]) for x in ss] == [(101, 0, False), (102, 1, True)], ss
