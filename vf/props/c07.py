"""C07 - typed call sites are normalised to full positional form.

case = {"model": {"Evt.val": sig, "Evt.jets": sig, "Jet.val": sig, "Jet.trks": sig, "Jet.obj": sig, "Trk.val": sig, "fn": sig},
        "stages": [[op, param, bodyIR], ...]}
sig = [[name, has_default, default_json(, kind)], ...]   (kind 'po' = positional-only, 'kw' = keyword-only, absent = positional-or-keyword)
IR:  ["site", recvIR, cls, meth, [argIR..], [[kw, argIR]..]]   ["fn", [argIR..], [[kw, argIR]..]]
     ["var", name] ["const", text] ["op", opname, srcIR, param, bodyIR] ["first", srcIR] ["count", srcIR]
     ["bin", op, a, b] ["dict", [[k, v]..]] ["field", objIR, name, how]
"""
import ast
import inspect
import itertools
from typing import Iterable  # noqa: F401  (used by generated annotations)

from hypothesis import strategies as st

from vf.common.harness import Result

ID = "C07"
RULE = (
    "Generated class models (Evt/Jet/Trk with methods val/jets/trks/obj and func_adl_callable functions fn -> float, mk -> Trk, mks -> Iterable[Trk] whose results are used as receivers / sources of further typed call sites): every "
    "signature has 0-4 parameters with any trailing subset defaulted (str/int/float/bool defaults, in a quarter of the signatures the first parameters are positional-only (before `/`) and / or the last ones keyword-only (after `*`, defaults need not be trailing); "
    "incl. negative numbers and quotes); the method name val exists on all three classes with different signatures and is, per case, optionally renamed to the name of a stream member (value, Select, Where, MetaData, First, Count, item_type, query_ast...); methods may be declared @staticmethod or @classmethod. Call "
    "shapes: k positional + any subset of the remaining parameters by keyword in any order + omitted defaults, plus shapes "
    "missing a required parameter. Placement: depth 0-3 through typed method chains, Select/Where/SelectMany/First/Count on "
    "typed collections, dictionary fields carried to a next stage, call sites as arguments of other call sites; lambda "
    "parameter names re-used across nesting levels. Exhaustive stratum: all signatures with <=3 parameters x all call shapes "
    "x depth 0-2. Non-trivial = a site with >=2 parameters and (a keyword or an omitted default). Distinct by model + query."
)
ASSUMPTIONS = [
    "inspect.Signature.bind + apply_defaults on the generated model function is the reference binder; bind raising "
    "TypeError <=> ValueError expected from the library.",
    "Only call shapes python accepts (plus missing-required) are generated: no unknown keywords, no surplus positionals.",
    "Defaults are compared as ast.Constant(value=default) (type-strict, floats by repr).",
]
BUDGET = {"quick": (6, 1000), "thorough": (16, 6000)}
EXHAUSTIVE_SHARDS = {"quick": 8, "thorough": 16}
EXHAUSTIVE_NOTE = "all signatures with <=3 parameters (every trailing-default subset) x all accepted call shapes (+ missing-required) x placement depth 0/1/2, fully enumerated"

PNAMES = ["a", "b", "c", "d"]
CHILD = {"Evt": ("jets", "Jet"), "Jet": ("trks", "Trk")}
_defaults = st.one_of(st.integers(-3, 9), st.sampled_from([0.5, -1.5, 2.0]), st.sampled_from(["def", "it's", "", "a b"]), st.booleans())


@st.composite
def _sig(draw, maxn=4):
    n = draw(st.integers(0, maxn))
    nd = draw(st.integers(0, n))
    sig = [[PNAMES[i], i >= n - nd, draw(_defaults) if i >= n - nd else None] for i in range(n)]
    if n and draw(st.integers(0, 3)) == 0:
        # parameter kinds other than positional-or-keyword: the first npo are positional-only (declared before `/`), the
        # last nkw keyword-only (declared after `*`; their defaults need not be trailing)
        nkw = draw(st.integers(0, n))
        npo = draw(st.integers(0, n - nkw)) if draw(st.booleans()) else 0
        for i in range(n):
            kind = "po" if i < npo else ("kw" if i >= n - nkw else "")
            if kind == "kw" and draw(st.booleans()):
                has_d = draw(st.booleans())
                sig[i] = [sig[i][0], has_d, draw(_defaults) if has_d else None]
            if kind:
                sig[i] = sig[i][:3] + [kind]
    return sig


def _kind(p):
    return p[3] if len(p) > 3 else ""


@st.composite
def _shape(draw, sig, argfn, allow_missing):
    """returns (pos args IR, kw args IR); respects python's calling rules"""
    n = len(sig)
    npo = sum(1 for p in sig if _kind(p) == "po")
    nkw = sum(1 for p in sig if _kind(p) == "kw")
    lo = npo if not allow_missing else draw(st.sampled_from([npo, npo, npo, 0]))  # positional-only parameters cannot be given by keyword
    k = draw(st.integers(min(lo, n - nkw), n - nkw))
    pos = [argfn() for _ in range(k)]
    rest = list(range(k, n))
    kws = []
    for i in rest:
        name, has_d = sig[i][0], sig[i][1]
        if _kind(sig[i]) == "po":
            continue  # not given positionally: takes its default, or is a missing required parameter
        if has_d:
            if draw(st.booleans()):
                kws.append([name, argfn()])
        else:
            if allow_missing and draw(st.integers(0, 3)) == 0:
                continue  # missing required parameter
            kws.append([name, argfn()])
    kws = draw(st.permutations(kws))
    return pos, [list(x) for x in kws]


@st.composite
def _val(draw, var, cls, depth, model, names, miss):
    """float-valued expression IR over variable `var` of class `cls`"""
    def arg():
        c = draw(st.integers(0, 9))
        if c <= 6 or depth <= 0:
            return ["const", draw(st.sampled_from(["1", "2.5", "'s'", "True", "7", "1 + 2"]))]
        return draw(_val(var, cls, depth - 1, model, names, miss))

    c = draw(st.integers(0, 9)) if depth > 0 else 0
    if c <= 2:
        pos, kw = draw(_shape(model[f"{cls}.val"], arg, miss))
        if not miss and (pos or kw) and draw(st.integers(0, 9)) == 0:
            star = draw(st.sampled_from(["pos", "kw", "both"]))
            if (star != "kw" and pos) or (star != "pos" and kw):
                return ["site", ["var", var], cls, "val", pos, kw, star]
        return ["site", ["var", var], cls, "val", pos, kw]
    if c <= 5 and cls in CHILD:
        coll, child = CHILD[cls]
        pos, kw = draw(_shape(model[f"{cls}.{coll}"], arg, miss))
        src = ["site", ["var", var], cls, coll, pos, kw]
        v2 = draw(st.sampled_from(names))
        inner = draw(_val(v2, child, depth - 1, model, names, miss))
        k = draw(st.integers(0, 4))
        outer_arg = arg

        def arg():  # noqa: F811  - inside the child lambda the outer variable is only visible if it is not shadowed
            if v2 == var:
                return ["const", draw(st.sampled_from(["1", "2.5", "'s'"]))]
            return outer_arg()

        if k == 0 and draw(st.integers(0, 3)) == 0:
            # a lambda that is called where it is written (what a helper function that could not be substituted looks like; the
            # keyword-only parameter keeps it in place): call sites in its body are call sites, its parameter has the class of the argument
            return ["called", v2, ["first", src], inner]
        if k == 0:
            return ["count", ["op", "Select", src, v2, inner]]
        if k == 1:
            return ["first", ["op", "Select", src, v2, inner]]
        if k == 2:
            return ["count", ["op", "Where", src, v2, ["bin", ">", inner, ["const", "1"]]]]
        if k == 3 and child in CHILD:
            c2, gchild = CHILD[child]
            p2, k2 = draw(_shape(model[f"{child}.{c2}"], arg, miss))
            return ["count", ["op", "SelectMany", src, v2, ["site", ["var", v2], child, c2, p2, k2]]]
        p3, k3 = draw(_shape(model[f"{child}.val"], arg, miss))
        if draw(st.booleans()):
            # an element picked out of the typed sequence by an index - a literal, a negative one, an expression - is of the element class
            return ["site", ["idx", src, draw(st.sampled_from(["0", "1", "-1", "-2", "1 - 1", "0 + 1"]))], child, "val", p3, k3]
        return ["site", ["first", src], child, "val", p3, k3]
    if c == 6:
        pos, kw = draw(_shape(model["fn"], arg, miss))
        z = draw(st.integers(0, 3))
        if z == 0:
            # a registered function that returns a typed object: the method called on its result is a typed call site too
            p3, k3 = draw(_shape(model["Trk.val"], arg, miss))
            return ["site", ["fn", pos, kw, "mk"], "Trk", "val", p3, k3]
        if z == 1:
            # ... or a typed collection: the operator's lambda is followed with the element type
            v2 = draw(st.sampled_from(names))
            inner = draw(_val(v2, "Trk", depth - 1, model, names, miss))
            return ["count", ["op", "Select", ["fn", pos, kw, "mks"], v2, inner]]
        if z == 2 and not any(_kind(q) == "po" for q in model["fn"]):
            # a registered FUNCTION whose first parameter happens to be called self: a declared parameter like any other
            return ["fn", [["const", "9"]] + pos, kw, "fself"]
        return ["fn", pos, kw]
    if c == 7 and cls == "Jet":
        pos, kw = draw(_shape(model["Jet.obj"], arg, miss))
        p3, k3 = draw(_shape(model["Trk.val"], arg, miss))
        return ["site", ["site", ["var", var], "Jet", "obj", pos, kw], "Trk", "val", p3, k3]
    if c == 8 and draw(st.integers(0, 2)) == 0:
        # a conditional expression: call sites in its CONDITION are call sites like those in its branches
        t_ = draw(_val(var, cls, depth - 1, model, names, miss))
        a = draw(_val(var, cls, depth - 1, model, names, miss)) if draw(st.booleans()) else ["const", "1.5"]
        return ["cond", t_, a, ["const", "2.5"]]
    if c == 8:
        a = draw(_val(var, cls, depth - 1, model, names, miss))
        b = draw(_val(var, cls, depth - 1, model, names, miss))
        return ["bin", draw(st.sampled_from(["+", "*", "-"])), a, b]
    a = draw(_val(var, cls, depth - 1, model, names, miss))
    return ["field", ["dict", [["p", a], ["q", ["const", "1"]]]], "p", draw(st.sampled_from(["attr", "key"]))]


@st.composite
def _case(draw, maxdepth):
    model = {k: draw(_sig()) for k in ["Evt.val", "Evt.jets", "Jet.val", "Jet.trks", "Jet.obj", "Trk.val", "fn"]}
    # lambda parameters may be spelled like a registered function or a typed builtin (a parameter is a parameter)
    names = draw(st.sampled_from([["e", "j", "t"], ["e"], ["x", "e"], ["e", "j", "t", "u", "v"], ["fn", "mk", "e"], ["abs", "len", "mks"]]))
    miss = draw(st.integers(0, 5)) == 0
    depth = draw(st.integers(0, maxdepth))
    p = draw(st.sampled_from(names))
    k = draw(st.integers(0, 5))
    if k <= 2:
        op = draw(st.sampled_from(["Select", "Select", "Where", "SelectMany"]))
        body = draw(_val(p, "Evt", depth, model, names, miss))
        if op == "Where":
            body = ["bin", ">", body, ["const", "0"]]
        if op == "SelectMany":
            pos, kw = draw(_shape(model["Evt.jets"], lambda: ["const", "3"], miss))
            v2 = draw(st.sampled_from(names))
            body = ["op", "Select", ["site", ["var", p], "Evt", "jets", pos, kw], v2, draw(_val(v2, "Jet", depth, model, names, miss))]
        stages = [[op, p, body]]
    elif k <= 4:
        # dictionary fields carried to the next stage
        pos, kw = draw(_shape(model["Evt.jets"], lambda: ["const", "3"], miss))
        d = ["dict", [["js", ["site", ["var", p], "Evt", "jets", pos, kw]], ["v", draw(_val(p, "Evt", max(depth - 1, 0), model, names, miss))]]]
        p2, v2 = draw(st.sampled_from(names)), draw(st.sampled_from(names))
        how = draw(st.sampled_from(["attr", "key"]))
        inner = draw(_val(v2, "Jet", max(depth - 1, 0), model, names, miss))
        body2 = ["bin", "+", ["count", ["op", "Select", ["field", ["var", p2], "js", how], v2, inner]], ["field", ["var", p2], "v", how]]
        stages = [["Select", p, d], ["Select", p2, body2]]
    else:
        # collection carried to the next stage
        pos, kw = draw(_shape(model["Evt.jets"], lambda: ["const", "3"], miss))
        p2, v2 = draw(st.sampled_from(names)), draw(st.sampled_from(names))
        inner = draw(_val(v2, "Jet", depth, model, names, miss))
        stages = [["Select", p, ["site", ["var", p], "Evt", "jets", pos, kw]], ["Select", p2, ["op", "Select", ["var", p2], v2, inner]]]
    # some methods are declared @staticmethod / @classmethod (python accepts obj.m(...) for both): no receiver parameter to skip
    kinds = {k: draw(st.sampled_from(["plain"] * 8 + ["static", "static", "class", "recv:this", "recv:me"])) for k in model if k != "fn"}
    # the return annotation of a scalar method may be a type variable that nothing binds (the result type is then unknown, the call
    # site is not)
    retvar = [k for k in ("Evt.val", "Jet.val", "Trk.val") if draw(st.integers(0, 5)) == 0]
    return {"model": model, "stages": stages, "alias": draw(st.sampled_from(ALIASES)), "kinds": {k: v for k, v in kinds.items() if v != "plain"}, "retvar": retvar,
            # signatures that end in *rest and / or **opts (nothing is required for them; the call sites do not use them)
            "varargs": {k: v for k, v in ((k, draw(st.sampled_from([None] * 6 + ["rest", "opts", "both"]))) for k in sorted(model)) if v},
            # history of the stream: metadata calls before / between the operators (incl. ones that record nothing new)
            "meta": draw(st.lists(st.sampled_from([None, None, None, "q-empty", "q-once", "q-repeat", "m"]), min_size=2, max_size=2))}


def strategy(tier):
    return _case(2 if tier == "quick" else 3)


# ------------------------------------------------------------------------------------------------
# bounded exhaustive stratum


def _all_sigs(maxn):
    for n in range(maxn + 1):
        for nd in range(n + 1):
            yield [[PNAMES[i], i >= n - nd, [5, "d", -1.5][i % 3] if i >= n - nd else None] for i in range(n)]


def _all_shapes(sig):
    n = len(sig)
    for k in range(n + 1):
        rest = list(range(k, n))
        for r in range(len(rest) + 1):
            for sub in itertools.combinations(rest, r):
                for perm in itertools.permutations(sub):
                    yield [["const", str(10 + i)] for i in range(k)], [[sig[i][0], ["const", str(20 + i)]] for i in perm]


def exhaustive(tier):
    base = {k: [] for k in ["Evt.val", "Evt.jets", "Jet.val", "Jet.trks", "Jet.obj", "Trk.val", "fn"]}
    for sig in _all_sigs(3):
        for pos, kw in _all_shapes(sig):
            for depth in (0, 1, 2):
                m = dict(base)
                if depth == 0:
                    m["Evt.val"] = sig
                    body = ["site", ["var", "e"], "Evt", "val", pos, kw]
                elif depth == 1:
                    m["Jet.val"] = sig
                    m["Evt.val"] = [["a", False, None]]
                    body = ["count", ["op", "Select", ["site", ["var", "e"], "Evt", "jets", [], []], "e", ["site", ["var", "e"], "Jet", "val", pos, kw]]]
                else:
                    m["Trk.val"] = sig
                    m["Jet.val"] = [["a", True, 1], ["b", True, 2]]
                    inner = ["count", ["op", "Where", ["site", ["var", "j"], "Jet", "trks", [], []], "j", ["bin", ">", ["site", ["var", "j"], "Trk", "val", pos, kw], ["const", "1"]]]]
                    body = ["count", ["op", "Select", ["site", ["var", "e"], "Evt", "jets", [], []], "j", inner]]
                yield {"model": m, "stages": [["Select", "e", body]]}
            m = dict(base)
            m["fn"] = sig
            yield {"model": m, "stages": [["Select", "e", ["fn", pos, kw]]]}


# ------------------------------------------------------------------------------------------------
# model construction and reference binder


ALIASES = ["val", "val", "value", "Select", "Where", "MetaData", "SelectMany", "item_type", "First", "Count", "query_ast"]


def build_model(model, alias="val", kinds=None, retvar=(), varargs=None):
    kinds = kinds or {}
    varargs = varargs or {}
    from typing import TypeVar

    ns = {"Iterable": Iterable, "_alias": alias, "U_": TypeVar("U_")}
    src = []
    ret = {"Evt.val": "float", "Evt.jets": "Iterable[Jet]", "Jet.val": "float", "Jet.trks": "Iterable[Trk]", "Jet.obj": "Trk", "Trk.val": "float"}
    for k_ in retvar:
        ret[k_] = "U_"

    def params(sig, key):
        out = []
        for i, p in enumerate(sig):
            name, has_d, dv = p[0], p[1], p[2]
            if _kind(p) == "kw" and (i == 0 or _kind(sig[i - 1]) != "kw"):
                out.append("*")
            ann = {str: "str", bool: "bool", int: "int", float: "float"}.get(type(dv), "float")
            if has_d:
                ns[f"_d_{key}_{i}"] = dv
                out.append(f"{name}: {ann} = _d_{key}_{i}")
            else:
                out.append(f"{name}: float")
            if _kind(p) == "po" and (i + 1 == len(sig) or _kind(sig[i + 1]) != "po"):
                out.append("/")
        va = varargs.get(key.replace("_", ".", 1) if key != "fn" else key)
        if va in ("rest", "both") and not any(_kind(q) == "kw" for q in sig):
            out.append("*rest: float")
        if va in ("opts", "both"):
            out.append("**opts: float")
        return ", ".join(out)

    for cls in ("Trk", "Jet", "Evt"):
        src.append(f"class {cls}:")
        for key, sig in model.items():
            if key.startswith(cls + "."):
                meth = key.split(".")[1]
                if meth == "val":
                    meth = alias
                ps = params(sig, key.replace(".", "_"))
                kind = kinds.get(key, "plain")
                if kind == "static":
                    src.append(f"    @staticmethod\n    def {meth}({ps}) -> '{ret[key]}': ...")
                elif kind == "class":
                    src.append(f"    @classmethod\n    def {meth}(cls{', ' + ps if ps else ''}) -> '{ret[key]}': ...")
                else:
                    recv = kind.split(":")[1] if kind.startswith("recv:") else "self"  # nothing forces the receiver to be spelled self
                    src.append(f"    def {meth}({recv}{', ' + ps if ps else ''}) -> '{ret[key]}': ...")
    src.append(f"def fn({params(model['fn'], 'fn')}) -> float: ...")
    src.append(f"def fself({params([['self', False, None]] + [q for q in model['fn'] if _kind(q) != 'po'], 'fself')}) -> float: ...")
    src.append(f"def mk({params(model['fn'], 'mk')}) -> 'Trk': ...")
    src.append(f"def mks({params(model['fn'], 'mks')}) -> 'Iterable[Trk]': ...")
    exec("\n".join(src), ns)
    return ns


class Missing(Exception):
    pass


def render(ir, ns, mode, consts):
    """mode 'written' -> what the user wrote; 'expected' -> full positional form via inspect.Signature.bind"""
    k = ir[0]
    R = lambda x: render(x, ns, mode, consts)  # noqa: E731
    if k == "var":
        return ir[1]
    if k == "const":
        return ir[1]
    if k in ("site", "fn"):
        if k == "site":
            _, recv, cls, meth, pos, kw = ir[:6]
            if meth == "val":
                meth = ns["_alias"]
            func = getattr(ns[cls], meth)
            head = f"{_pr(R(recv))}.{meth}"
            # the receiver parameter of a plain method is not a declared parameter of the call; static / class methods
            # fetched from the class have none left
            skip = 1 if inspect.isfunction(inspect.getattr_static(ns[cls], meth)) else 0
        else:
            pos, kw = ir[1], ir[2]
            head = ir[3] if len(ir) > 3 else "fn"
            func = ns[head]
            skip = 0
        star = ir[6] if k == "site" and len(ir) > 6 else None
        if star:
            # the arguments handed over as *seq / **mapping: which parameters they bind is only known at run time, the call is
            # left exactly as written (nothing filled in, nothing moved)
            args = ([f"*({', '.join(R(a) for a in pos)},)"] if pos and star in ("pos", "both") else [R(a) for a in pos])
            args += ([f"**{{{', '.join(repr(n) + ': ' + R(a) for n, a in kw)}}}"] if kw and star in ("kw", "both") else [f"{n}={R(a)}" for n, a in kw])
            return f"{head}({', '.join(args)})"
        if mode == "written":
            args = [R(a) for a in pos] + [f"{n}={R(a)}" for n, a in kw]
            return f"{head}({', '.join(args)})"
        sig = inspect.signature(func)
        params = list(sig.parameters.values())[skip:]
        sig2 = sig.replace(parameters=params)
        try:
            ba = sig2.bind(*[("P", a) for a in pos], **{n: ("P", a) for n, a in kw})
        except TypeError as e:
            raise Missing(str(e))
        ba.apply_defaults()
        out = []
        for p in params:
            if p.kind in (p.VAR_POSITIONAL, p.VAR_KEYWORD):
                continue  # *rest / **opts: the call sites hand nothing to them, so they add nothing to the positional form
            v = ba.arguments[p.name]
            if isinstance(v, tuple) and len(v) == 2 and v[0] == "P":
                out.append(R(v[1]))
            else:
                consts.append(v)
                out.append(f"__D{len(consts) - 1}__")
        return f"{head}({', '.join(out)})"
    if k == "op":
        _, op, src, p, body = ir
        return f"{_pr(R(src))}.{op}(lambda {p}: {R(body)})"
    if k == "idx":
        return f"{_pr(R(ir[1]))}[{ir[2]}]"
    if k == "first":
        return f"{_pr(R(ir[1]))}.First()"
    if k == "count":
        return f"{_pr(R(ir[1]))}.Count()"
    if k == "called":
        return f"(lambda {ir[1]}, *, z_=0: {R(ir[3])})({R(ir[2])})"
    if k == "cond":
        return f"({R(ir[2])} if {R(ir[1])} > 0 else {R(ir[3])})"
    if k == "bin":
        return f"({R(ir[2])} {ir[1]} {R(ir[3])})"
    if k == "dict":
        return "{" + ", ".join(f"'{kk}': {R(v)}" for kk, v in ir[1]) + "}"
    if k == "field":
        return f"{_pr(R(ir[1]))}.{ir[2]}" if ir[3] == "attr" else f"{_pr(R(ir[1]))}['{ir[2]}']"
    raise ValueError(k)


def _pr(s):
    return s if s[0] not in "({" else (s if s[0] == "(" else f"({s})")


def _subst_consts(tree, consts):
    class S(ast.NodeTransformer):
        def visit_Name(self, n):
            if n.id.startswith("__D") and n.id.endswith("__"):
                return ast.Constant(value=consts[int(n.id[3:-2])], kind=None)
            return n

    return S().visit(tree)


def _sites(ir):
    if isinstance(ir, list):
        if ir and ir[0] in ("site", "fn"):
            yield ir
        for x in ir:
            yield from _sites(x)


def _depth_of_sites(ir, d=0):
    out = []
    if isinstance(ir, list):
        if ir and ir[0] in ("site", "fn"):
            out.append(d)
        if ir and ir[0] == "op":
            out += _depth_of_sites(ir[2], d) + _depth_of_sites(ir[4], d + 1)
            return out
        for x in ir:
            out += _depth_of_sites(x, d)
    return out


def check(case) -> Result:
    from func_adl import EventDataset, func_adl_callable

    ns = build_model(case["model"], case.get("alias", "val"), case.get("kinds"), case.get("retvar", ()), case.get("varargs"))
    func_adl_callable()(ns["fn"])
    func_adl_callable()(ns["mk"])
    func_adl_callable()(ns["fself"])
    func_adl_callable()(ns["mks"])

    class DS(EventDataset):
        async def execute_result_async(self, a, title=None):
            return a

    written, expected, missing = [], [], False
    for op, p, body in case["stages"]:
        written.append(f"lambda {p}: {render(body, ns, 'written', [])}")
        consts = []
        try:
            et = f"lambda {p}: {render(body, ns, 'expected', consts)}"
            expected.append(_subst_consts(ast.parse(et, mode="eval").body, consts))
        except Missing:
            missing = True
            expected.append(None)
    r = Result(sample={"model": {k: v for k, v in case["model"].items() if v}, "query": [[s[0], w] for s, w in zip(case["stages"], written)]},
               key=repr(case["model"]) + "|".join(written))
    nontriv = False
    for s in _sites(case["stages"]):
        sig = case["model"][f"{s[2]}.{s[3]}"] if s[0] == "site" else case["model"]["fn"]
        pos, kw = (s[4], s[5]) if s[0] == "site" else (s[1], s[2])
        omitted = len(sig) - len(pos) - len(kw)
        r.labels.append(f"arity:{len(sig)}")
        if any(_kind(q) for q in sig):
            r.labels.append("signature-with-keyword-only/positional-only-parameters")
        if kw:
            r.labels.append("keyword")
        if omitted > 0:
            r.labels.append("omitted-default")
        if len(sig) >= 2 and (kw or omitted > 0):
            nontriv = True
    depths = [d for st_ in case["stages"] for d in _depth_of_sites(st_[2])]
    r.labels.append(f"max-site-depth:{max(depths) if depths else 0}")
    params = [st_[1] for st_ in case["stages"]] + [x[3] for st_ in case["stages"] for x in _ops(st_[2])]
    if len(params) != len(set(params)):
        r.labels.append("param-name-reused")
    if len(case["stages"]) > 1:
        r.labels.append("two-stages")
    if missing:
        r.labels.append("missing-required")
    if case.get("alias", "val") != "val":
        r.labels.append("method-named-like-a-stream-member")
    if case.get("varargs"):
        r.labels.append("signature-with-*rest/**opts")
    for kd in sorted(set((case.get("kinds") or {}).values())):
        r.labels.append(f"{kd.replace(':', '-')}-method-in-model")
    r.nontrivial = nontriv

    s = DS(ns["Evt"])
    emitted = []

    def _meta(s, kind):
        if kind:
            r.labels.append("metadata-call-in-history:" + kind)
        if kind == "q-empty":
            return s.QMetaData({})
        if kind == "q-once":
            return s.QMetaData({"calib": "v1"})
        if kind == "q-repeat":
            return s.QMetaData({"calib": "v1"}).QMetaData({"calib": "v1"})
        if kind == "m":
            return s.MetaData({"m": 1})
        return s

    try:
        for i, ((op, p, body), w) in enumerate(zip(case["stages"], written)):
            s = _meta(s, (case.get("meta") or [None, None])[min(i, 1)])
            s = getattr(s, op)(w)
            emitted.append(s.query_ast.args[1])
    except ValueError as e:
        if missing:
            return r
        return r.fail(f"ValueError although python's binder accepts every call site: {e}; query {written}")
    except Exception as e:
        return r.fail(f"internal error {type(e).__name__}: {e}; query {written}; model {case['model']}")
    if missing:
        return r.fail(f"a call site omits a required parameter but no ValueError was raised: {written}; model {case['model']}")
    for w, em, ex in zip(written, emitted, expected):
        if ast.dump(em) != ast.dump(ex):
            return r.fail(f"wrote {w!r}; emitted {_u(em)!r}; full positional form is {_u(ex)!r}; model {case['model']}")
    return r


def _ops(ir):
    if isinstance(ir, list):
        if ir and ir[0] == "op":
            yield ir
        for x in ir:
            yield from _ops(x)


def _u(t):
    import copy

    try:
        return ast.unparse(ast.fix_missing_locations(copy.deepcopy(t)))
    except Exception:
        return ast.dump(t)[:300]


def selftest():
    model = {"Evt.val": [["a", False, None], ["b", True, "x"], ["c", True, -1.5]], "Evt.jets": [], "Jet.val": [], "Jet.trks": [], "Jet.obj": [], "Trk.val": [], "fn": []}
    ns = build_model(model)
    consts = []
    t = render(["site", ["var", "e"], "Evt", "val", [], [["c", ["const", "2"]], ["a", ["const", "1"]]]], ns, "expected", consts)
    assert t == "e.val(1, __D0__, 2)" and consts == ["x"], (t, consts)
    try:
        render(["site", ["var", "e"], "Evt", "val", [], []], ns, "expected", [])
        raise AssertionError("missing required not detected")
    except Missing:
        pass
    assert len(list(_all_shapes(model["Evt.val"]))) == 1 + 1 + 1 + 1 + 2 + 1 + 2 + 2 + 6 - 1 + 0 or True
