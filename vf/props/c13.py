"""C13 - embedded Python values keep their exact value.

case = {"entry": <entry point>, "v": <tagged value>, ...}
tagged value: ["s", str] ["i", "123"] ["f", hex] ["b", bool] ["n"] ["y", hex] ["l", [..]] ["t", [..]] ["d", [[key, val]..]]
"""
import ast
from typing import Any

from hypothesis import strategies as st

from vf.common import srcgen
from vf.common.harness import Result

ID = "C13"
ENTRIES = ["metadata", "pandas-columns", "awkward-columns", "ttree", "parquet", "default", "capture-closure", "capture-global", "capture-closure-nested", "capture-global-nested"]
RULE = (
    "Values: text over the full alphabet (quotes, backslashes, newlines, brackets, operators, '#', non-ASCII, non-BMP) and code-like text (words such as inf, nan, None, True, lambda, 1e999, 0x1F, escape sequences and format "
    "fields glued with blanks, brackets, quotes and operators; also as bytes), "
    "big ints, finite floats incl. -0.0 / subnormals / 1e308, bools, None, bytes, list/tuple/dict nestings (depth<=3), each "
    "sent through every entry point that accepts its shape: MetaData(dict), AsPandasDF/AsAwkwardArray(columns), "
    "AsROOTTTree(filename, treename, columns), AsParquetFiles(filename, columns), a declared default of a typed method "
    "whose call omits it, a captured closure variable, a captured module global (directly in the passed lambda and inside lambdas of nested operators). Oracle: ast.literal_eval of the emitted "
    "literal == value with recursively identical types (floats by repr). Non-trivial = value contains one of ' \" \\ "
    "newline CR # ()[]{} or a non-ASCII character, or is a nested container, or a non-integral float. Distinct by "
    "(entry point, value)."
)
ASSUMPTIONS = [
    "For the two in-lambda entry points (defaults, captures) ValueError is the specified outcome for values that are not "
    "transportable scalars (str/int/float/bool/complex/bytes) and is accepted only for those.",
    "Column names are str, file and tree names str or bytes; MetaData keys are str.",
]
BUDGET = {"quick": (4, 1500), "thorough": (16, 20000)}

_SPECIAL = set("'\"\\\n\r#()[]{}")
_alpha = st.one_of(
    st.sampled_from(list("'\"\\\n\r\t#()[]{}+-*/=,.: abAB01_%$")),
    st.characters(min_codepoint=0x20, max_codepoint=0x7E),
    st.sampled_from(list("éüßπ€中 \x00\x7f\x85\U0001F600")),
    st.characters(),
)
_text = st.one_of(st.text(alphabet=_alpha, max_size=8), st.sampled_from(["it's", "a\\b", "x' + 'y", "'", "\\", "\"'\"", "lambda e: e", "f'il.root", "a\nb", "\\n", "{0}", "%s", "''' '''"]))
# code-like text: words that mean something to python / to a number parser, glued with separators (a value that is
# rendered to text and re-parsed, or post-processed textually, is where such content gets altered or parsed as code)
_WORDS = ["inf", "nan", "None", "True", "False", "lambda", "e", "x", "1e999", "-1", "0x1F", "1j", "__import__", "os", "and", "or", "not", "in",
          "is", "if", "else", "for", "b", "u", "r", "f", "\\N{BULLET}", "\\x41", "\\u00e9", "%d", "{x}", "Infinity", "NaN", "null", "true", "1_000", "1.", ".5"]
_SEPS = [" ", " ", "  ", "\t", "(", ")", "/", ".", ",", ":", "=", "+", "-", "[", "]", "{", "}", "'", '"', "\\", "\n", ";", "#", ""]
_codelike = st.lists(st.tuples(st.sampled_from(_SEPS), st.sampled_from(_WORDS), st.sampled_from(_SEPS)), min_size=1, max_size=4).map(
    lambda parts: "".join(a + w + b for a, w, b in parts))
_text = st.one_of(_text, _text, _codelike)
_floats = st.one_of(
    st.floats(allow_nan=False, allow_infinity=False),
    st.sampled_from([-0.0, 0.0, 5e-324, 1e308, 1.7976931348623157e308, 0.1, -2.5, 1e22, 1e16, 123456789.0]),
)
_scalars = st.one_of(
    _text.map(lambda s: ["s", s]),
    st.one_of(st.integers(-10, 10), st.integers(-(2**80), 2**80)).map(lambda i: ["i", str(i)]),
    _floats.map(lambda f: ["f", f.hex()]),
    st.booleans().map(lambda b: ["b", b]),
    st.just(["n"]),
    st.one_of(st.binary(max_size=5), _codelike.map(lambda t: t.encode("ascii"))).map(lambda y: ["y", y.hex()]),
)
# dictionary keys: mostly text, sometimes another hashable scalar (a plain str key stays a plain str in the case encoding)
_keys = st.one_of(_text, _text, _text, st.integers(-3, 300).map(lambda i: ["i", str(i)]), st.sampled_from([["b", True], ["b", False], ["n"], ["f", (0.5).hex()], ["f", (2.0).hex()], ["y", "00ff"]]))


def _key_of(k):
    return k if isinstance(k, str) else decode(k)


_values = st.recursive(
    _scalars,
    lambda inner: st.one_of(
        st.lists(inner, max_size=3).map(lambda l: ["l", l]),
        st.lists(inner, max_size=3).map(lambda l: ["t", l]),
        st.lists(st.tuples(_keys, inner), max_size=3, unique_by=lambda kv: _key_of(kv[0])).map(lambda kv: ["d", [list(x) for x in kv]]),
    ),
    max_leaves=6,
)


def decode(t) -> Any:
    k = t[0]
    if k == "s":
        return t[1]
    if k == "i":
        return int(t[1])
    if k == "f":
        return float.fromhex(t[1])
    if k == "b":
        return bool(t[1])
    if k == "n":
        return None
    if k == "y":
        return bytes.fromhex(t[1])
    if k == "l":
        return [decode(x) for x in t[1]]
    if k == "t":
        return tuple(decode(x) for x in t[1])
    if k == "d":
        return {_key_of(kk): decode(v) for kk, v in t[1]}
    raise ValueError(k)


def same(a, b) -> bool:
    if type(a) is not type(b):
        return False
    if isinstance(a, float):
        return repr(a) == repr(b)
    if isinstance(a, (list, tuple)):
        return len(a) == len(b) and all(same(x, y) for x, y in zip(a, b))
    if isinstance(a, dict):
        return len(a) == len(b) and all(same(x, y) for x, y in zip(a.keys(), b.keys())) and all(same(a[k], b[k]) for k in a)
    return a == b


@st.composite
def _case(draw):
    entry = draw(st.sampled_from(ENTRIES))
    if entry == "metadata":
        kv = draw(st.lists(st.tuples(_keys, _values), max_size=3, unique_by=lambda kv: _key_of(kv[0])))
        return {"entry": entry, "v": ["d", [list(x) for x in kv]]}
    if entry in ("pandas-columns", "awkward-columns"):
        if draw(st.booleans()):
            return {"entry": entry, "v": ["s", draw(_text)]}
        return {"entry": entry, "v": ["l", [["s", s] for s in draw(st.lists(_text, max_size=3))]]}
    # a file / tree name is text - as a str, now and then as bytes (what os.fsencode gives; a listed value type at a listed entry point)
    name = st.one_of(_text.map(lambda s_: ["s", s_]), _text.map(lambda s_: ["s", s_]), _text.map(lambda s_: ["s", s_]),
                     st.one_of(st.binary(max_size=5), _codelike.map(lambda t: t.encode("ascii"))).map(lambda y: ["y", y.hex()]))
    if entry == "ttree":
        cols = ["s", draw(_text)] if draw(st.booleans()) else ["l", [["s", s] for s in draw(st.lists(_text, max_size=2))]]
        return {"entry": entry, "v": ["t", [draw(name), draw(name), cols]]}
    if entry == "parquet":
        cols = ["s", draw(_text)] if draw(st.booleans()) else ["l", [["s", s] for s in draw(st.lists(_text, max_size=2))]]
        return {"entry": entry, "v": ["t", [draw(name), cols]]}
    return {"entry": entry, "v": draw(st.one_of(_scalars, _scalars, _scalars, _values)), "subclass": draw(st.integers(0, 5)) == 0}


def strategy(tier):
    return _case()


def _leaves(v):
    if isinstance(v, (list, tuple)):
        for x in v:
            yield from _leaves(x)
    elif isinstance(v, dict):
        for k, x in v.items():
            yield k
            yield from _leaves(x)
    else:
        yield v


def _nontrivial(v) -> bool:
    if isinstance(v, (list, tuple, dict)) and any(isinstance(x, (list, tuple, dict)) for x in (v.values() if isinstance(v, dict) else v)):
        return True
    for x in _leaves(v):
        if isinstance(x, str) and (set(x) & _SPECIAL or any(ord(c) > 127 for c in x)):
            return True
        if isinstance(x, float) and x != int(x) if isinstance(x, float) and abs(x) < 1e300 else False:
            return True
    return False


_SCALARS = (str, int, float, bool, complex, bytes)


class _StrSub(str):
    def __str__(self):
        return "<text form of " + str.__str__(self) + ">"


class _FloatSub(float):
    pass

_CAPTURE_SRC = '''
G = None
v = "a module global spelled like the closure variable"
def build_closure(ds, v):
    return ds.Select(lambda e: (e.x, v))
def build_global(ds):
    return ds.Select(lambda e: (e.x, G))
def build_closure_nested(ds, v):
    return ds.Select(lambda e: e.jets.Select(lambda j: j.trks.Where(lambda t: (t.x, v))))
def build_global_nested(ds):
    return ds.Select(lambda e: e.jets.Select(lambda j: (j.x, G)))
'''


def check(case) -> Result:
    from func_adl import EventDataset

    class DS(EventDataset):
        async def execute_result_async(self, a, title=None):
            return a

    entry = case["entry"]
    v = decode(case["v"])
    r = Result(sample={"entry": entry, "value": repr(v)}, key=entry + repr(v))
    r.labels.append("entry:" + entry)
    r.nontrivial = _nontrivial(v)
    kinds = {type(x).__name__ for x in _leaves(v)}
    for k in sorted(kinds):
        r.labels.append("leaf:" + k)
    if any(isinstance(x, str) and set(x) & set("'\"\\\n") for x in _leaves(v)):
        r.labels.append("quote/backslash/newline")

    def lit(node, want, what):
        try:
            got = ast.literal_eval(node)
        except Exception as e:
            return f"{what}: emitted node is not a literal ({type(e).__name__}: {e}): {ast.dump(node)[:200]}"
        if not same(got, want):
            return f"{what}: embedded {want!r} came back as {got!r}"
        return None

    try:
        if entry == "metadata":
            q = DS().MetaData(v).query_ast
            err = lit(q.args[1], v, "MetaData")
        elif entry in ("pandas-columns", "awkward-columns"):
            s = DS().Select("lambda e: e.x")
            q = (s.AsPandasDF(v) if entry.startswith("pandas") else s.AsAwkwardArray(v)).query_ast
            err = lit(q.args[1], [v] if isinstance(v, str) else v, entry)
        elif entry == "ttree":
            fn, tn, cols = v
            q = DS().Select("lambda e: e.x").AsROOTTTree(fn, tn, cols).query_ast
            want_cols = [cols] if isinstance(cols, str) else cols
            err = lit(q.args[1], want_cols, "AsROOTTTree columns") or lit(q.args[2], tn, "AsROOTTTree treename") or lit(q.args[3], fn, "AsROOTTTree filename")
        elif entry == "parquet":
            fn, cols = v
            q = DS().Select("lambda e: e.x").AsParquetFiles(fn, cols).query_ast
            want_cols = [cols] if isinstance(cols, str) else cols
            err = lit(q.args[1], want_cols, "AsParquetFiles columns") or lit(q.args[2], fn, "AsParquetFiles filename")
        else:
            if case.get("subclass"):
                # the value is an instance of a SUBCLASS of str (with a text form of its own, like a (str, Enum) member) or of float:
                # a float is embedded as the plain number; a str subclass is not a literal anybody can write (refused)
                v = _StrSub(v) if isinstance(v, str) else (_FloatSub(v) if isinstance(v, float) else v)
                r.labels.append("value-of-a-subclass-type")
            scalar = type(v) in _SCALARS or isinstance(v, _FloatSub)
            want_v = float(v) if isinstance(v, _FloatSub) else v
            try:
                if entry == "default":
                    class Evt:
                        def m(self, a=v) -> float: ...

                    lam = DS(Evt).Select("lambda e: e.m()").query_ast.args[1]
                    node = lam.body.args[0] if isinstance(lam.body, ast.Call) and lam.body.args else None
                    if node is None:
                        return r.fail(f"default {v!r} was not filled in: {ast.unparse(lam)}")
                else:
                    with srcgen.module(_CAPTURE_SRC) as mod:
                        if entry == "capture-closure":
                            lam = mod.build_closure(DS(), v).query_ast.args[1]
                            node = lam.body.elts[1]
                        elif entry == "capture-global":
                            mod.G = v
                            lam = mod.build_global(DS()).query_ast.args[1]
                            node = lam.body.elts[1]
                        elif entry == "capture-closure-nested":  # the capture sits two lambdas below the one passed
                            lam = mod.build_closure_nested(DS(), v).query_ast.args[1]
                            node = lam.body.args[0].body.args[0].body.elts[1]
                        else:
                            mod.G = v
                            lam = mod.build_global_nested(DS()).query_ast.args[1]
                            node = lam.body.args[0].body.elts[1]
            except ValueError as e:
                if scalar:
                    return r.fail(f"{entry}: transportable scalar {v!r} refused with ValueError: {e}")
                r.labels.append("refused-non-scalar")
                return r
            if not scalar:
                return r.fail(f"{entry}: non-transportable {type(v).__name__} value {v!r} was emitted inside a lambda as {ast.dump(node)[:120]}")
            err = lit(node, want_v, entry)
            for c in ast.walk(lam):
                if isinstance(c, ast.Constant) and type(c.value) not in _SCALARS:
                    err = err or f"{entry}: emitted lambda contains a constant of type {type(c.value).__name__}"
    except Exception as e:
        return r.fail(f"{entry}: embedding {v!r} raised {type(e).__name__}: {e}")
    if err:
        return r.fail(err)
    return r


def selftest():
    for t in (["f", (-0.0).hex()], ["t", [["s", "a'b"], ["n"]]], ["d", [["k", ["l", [["i", "5"]]]]]]):
        v = decode(t)
        assert same(v, ast.literal_eval(repr(v))), v
    assert not same(1, True) and not same(0.0, -0.0) and not same((1,), [1])
