"""C02 - chained-call simplification preserves query results.

case = {"src": query expression text over `ds`, "data": dataset json, "naming": scheme}
"""
from __future__ import annotations

import ast
import copy

from hypothesis import strategies as st

from vf.common.harness import Result
from vf.gen import typed
from vf.sem import pyeval, schema

ID = "C02"
RULE = (
    "Closed, type-correct query expressions over ds generated from a typed grammar (Select/Where/SelectMany/First/Count "
    "in function and method form, nested lambdas, explicitly called lambdas with positional and keyword arguments, "
    "tuple/list/dict construction with constant projection, arithmetic/boolean/conditional expressions, method calls "
    "with arguments), under five binder-naming schemes (all distinct, all identical, re-use of live outer names, "
    "arg_N-shaped names, names of ast fields); datasets of 0-3 events incl. empty collections. Non-trivial = the "
    "simplifier changed the tree AND the reference value contains at least one scalar. Distinct by source text + data."
)
ASSUMPTIONS = [
    "'Evaluates to the same value' = CPython evaluation under list semantics with exact, type-strict comparison "
    "(floats are multiples of 1/8; rewrites never re-associate arithmetic).",
    "Nothing is required when the original raises (First on an empty sequence).",
    "The input AST may be modified by the simplifier (the property does not claim preservation); a deep copy is evaluated first.",
    "The simplifier's dedicated index error (C18) is accepted when the query indexes a tuple/list literal with a variable: the "
    "index can become a constant beyond the end once an argument is substituted for it.",
]
BUDGET = {"quick": (8, 1000), "thorough": (16, 12000)}

OPS = ("Select", "Where", "SelectMany")


@st.composite
def case_strategy(draw, maxdepth, odd=False, namings=("distinct", "distinct", "same", "reuse", "reuse", "argn", "argmix", "astnames")):
    naming = draw(st.sampled_from(namings))
    cfg = typed.Cfg(naming=naming, odd_selectors=odd, method_form=draw(st.sampled_from([0.0, 0.2, 0.5])), free_scalar=True, higher_order=True, kwonly_in_called=True, dict_method_keys=True, seq_of_packages=True, starred_literals=True, callable_fields=True, odd_operator_lambdas=True)
    cx = typed.Ctx(draw, cfg)
    env = [("ds", typed.S(typed.EVT))]  # (a second free variable, the scalar k0, may occur in default values of called lambdas)
    depth = draw(st.integers(2, maxdepth))
    k = draw(st.integers(0, 16))
    if k >= 14:
        # carry-forward shape: stage 1 packages a member sequence/object together with its own binder, stage 2 runs a
        # nested operator over the packaged sequence whose lambda refers to the other packaged field
        a, b = cx.fresh(env), cx.fresh(env)
        if draw(st.booleans()):
            s1 = typed._op(cx, "SelectMany", "ds", f"lambda {a}: " + typed._op(cx, "Select", f"{a}.jets()", f"lambda {b}: ({b}, {a})"))
            et, inner_src, it = ("T", (typed.JET, typed.EVT)), "{P}[0].trks()", typed.TRK
        else:
            s1 = typed._op(cx, "Select", "ds", f"lambda {a}: ({a}.jets(), {a})")
            et, inner_src, it = ("T", (typed.S(typed.JET), typed.EVT)), "{P}[0]", typed.JET
        if draw(st.booleans()):
            w = cx.fresh(env)
            s1 = typed._op(cx, "Where", s1, f"lambda {w}: {typed.filter_body(cx, typed.bind(env, w, et), 1)}")
        pn = cx.fresh(env)
        e2 = typed.bind(env, pn, et)
        cn = cx.fresh(e2)
        if naming != "distinct" and draw(st.booleans()):
            cn = draw(st.sampled_from([a, b]))  # the inner binder re-uses a name of the (sibling) first stage
        e3 = typed.bind(e2, cn, it)
        iop = draw(st.sampled_from(["Select", "Select", "Where"]))
        body = typed.gen(cx, e3, typed.B if iop == "Where" else draw(st.sampled_from([typed.F, typed.I, ("T", (typed.F, typed.F))])), draw(st.integers(1, 2)))
        if cn != pn and draw(st.integers(0, 9)) < 6:  # make sure the other packaged field is used under the inner binder
            body = f"({body}, {pn}[1].met)" if iop == "Select" else f"({body} or ({pn}[1].met > 1.0))"
        inner = typed._op(cx, iop, inner_src.replace("{P}", pn), f"lambda {cn}: {body}")
        src = typed._op(cx, draw(st.sampled_from(["Select", "SelectMany"])), s1, f"lambda {pn}: {inner}")
    elif k >= 10:
        # nested-chain shape: an outer stage whose lambda body is itself a 2-3 stage chain over a member
        # sequence, every stage free to mention the outer variable (this is where binder handling matters)
        a = cx.fresh(env)
        e1 = typed.bind(env, a, typed.EVT)
        inner, it = typed._source(cx, e1)
        for _ in range(draw(st.integers(2, 3))):
            v = cx.fresh(e1)
            e2 = typed.bind(e1, v, it)
            c = draw(st.integers(0, 6))
            if c <= 2:
                t = typed.any_type(cx, e2, 2)
                if t[0] == "S":
                    t = typed.I
                inner, it = typed._op(cx, "Select", inner, f"lambda {v}: {typed.gen(cx, e2, t, depth - 2)}"), t
            elif c <= 4:
                inner = typed._op(cx, "Where", inner, f"lambda {v}: {typed.filter_body(cx, e2, depth - 2)}")
            else:
                sp = [(e, t) for e, t in typed.seq_paths(cx, e2)]
                if not sp:
                    continue
                ie, ity = cx.pick(sp)
                inner, it = typed._op(cx, "SelectMany", inner, f"lambda {v}: {typed._fill(cx, ie)}"), ity[1]
        outer = draw(st.sampled_from(["Select", "Select", "SelectMany"]))
        src = typed._op(cx, outer, "ds", f"lambda {a}: {inner}")
    elif k == 9:
        # guard pattern: the first filter makes the second one safe (short-circuit order matters)
        v1, v2 = cx.fresh(env), cx.fresh(env)
        sel = draw(st.sampled_from([".jets()", ".nums()"]))
        proj = ".pt > 1.0" if sel == ".jets()" else " > 0"
        src = typed._op(cx, "Where", typed._op(cx, "Where", "ds", f"lambda {v1}: Count({v1}{sel}) > 0"), f"lambda {v2}: First({v2}{sel}){proj}")
        if draw(st.booleans()):
            v3 = cx.fresh(env)
            src = typed._op(cx, "Select", src, f"lambda {v3}: {typed.gen(cx, typed.bind(env, v3, typed.EVT), typed.F, 1)}")
    elif k <= 6:
        src, et = typed.any_seq(cx, env, depth)
        if draw(st.integers(0, 9)) == 0:
            # the first operator is given its function BY NAME (a free name of the query, not a lambda): nothing to combine with
            src, et = draw(st.sampled_from(["Select(ds, fn_id)", "Where(ds, fn_ok)", "Select(Where(ds, fn_ok), fn_id)"])), typed.EVT
        # make operator adjacency at the top level likely: stack 1-2 more operators on the result
        for _ in range(draw(st.integers(1, 2))):
            v = cx.fresh(env)
            e2 = typed.bind(env, v, et)
            c = draw(st.integers(0, 5))
            if c <= 2:
                t = typed.any_type(cx, e2, 2)
                if t[0] == "S":
                    t = typed.I
                src, et = typed._op(cx, "Select", src, f"lambda {v}: {typed.gen(cx, e2, t, depth - 1)}"), t
            elif c <= 4:
                src = typed._op(cx, "Where", src, f"lambda {v}: {typed.filter_body(cx, e2, depth - 1)}")
            else:
                inner, it = typed.any_seq(cx, e2, depth - 1)
                src, et = typed._op(cx, "SelectMany", src, f"lambda {v}: {inner}"), it
    elif k <= 8:
        src = typed.gen(cx, env, draw(st.sampled_from([typed.I, typed.F, typed.B])), depth)
    else:
        src = typed.gen(cx, env, typed.any_type(cx, env, 2), depth)
    return {"src": src, "data": draw(typed.dataset()), "naming": naming}


def strategy(tier):
    return case_strategy(3 if tier == "quick" else 4)


def shape_labels(tree, r: Result):
    for n in ast.walk(tree):
        if isinstance(n, ast.Call) and isinstance(n.func, ast.Name) and n.func.id in OPS and n.args:
            a = n.args[0]
            if isinstance(a, ast.Call) and isinstance(a.func, ast.Name) and a.func.id in OPS:
                r.labels.append(f"{n.func.id}_of_{a.func.id}")
        if isinstance(n, ast.Call) and isinstance(n.func, ast.Lambda):
            r.labels.append("called-lambda" + ("-kw" if n.keywords else ""))
        if isinstance(n, ast.Call) and isinstance(n.func, ast.Name) and n.func.id == "First":
            r.labels.append("First")
        if isinstance(n, ast.Subscript) and isinstance(n.value, (ast.Tuple, ast.List, ast.Dict)):
            r.labels.append("literal-projection")
    lams = [n for n in ast.walk(tree) if isinstance(n, ast.Lambda)]
    depth = _lambda_depth(tree)
    r.labels.append(f"lambda-depth:{min(depth, 4)}")
    for lam in lams:
        inner = {a.arg for l2 in ast.walk(lam.body) if isinstance(l2, ast.Lambda) for a in l2.args.args}
        if {a.arg for a in lam.args.args} & inner:
            r.labels.append("inner-rebinds-outer-name")
            break


def _lambda_depth(n, d=0):
    best = d
    for c in ast.iter_child_nodes(n):
        best = max(best, _lambda_depth(c, d + 1 if isinstance(c, ast.Lambda) else d))
    return best


_SHARED = None


def semantic_check(case, r: Result, allow_index_error=False, total=False):
    """shared by C02 / C14 / C18: returns (tree, result tree or None, expect)"""
    from func_adl.ast.function_simplifier import FuncADLIndexError, simplify_chained_calls

    tree = ast.parse(case["src"], mode="eval").body
    env = {"ds": schema.build(case["data"]), "k0": 1, "fn_id": lambda x_: x_, "fn_ok": lambda x_: True}
    try:
        expect = pyeval.materialise(pyeval.evaluate(tree, env, total))
    except Exception:  # python itself cannot evaluate the original (also: recursion limit): nothing is required
        expect = None
        r.ref_error = True
    work = copy.deepcopy(tree)
    # a backend may keep one transformer object for all its queries: every other case goes through an instance that has been used before
    global _SHARED
    if len(case["src"]) % 2 == 0:
        if _SHARED is None:
            _SHARED = simplify_chained_calls()
            _SHARED.visit(ast.parse("Select(ds, lambda e: e.x)", mode="eval").body)
        if len(case["src"]) % 4 == 0:
            # ... and that has REFUSED a query before (its dedicated index error, caught by the caller as a backend would)
            try:
                _SHARED.visit(ast.parse("Select(ds, lambda e: Select(e.jets, lambda j: (e.x, j.y)[5]))", mode="eval").body)
            except FuncADLIndexError:
                pass
            # ... also from inside a lambda that was being applied at that moment, whose parameters are spelled like the free
            # names of the queries that follow (nothing of the failed query may linger on)
            for text in ("Select(ds, lambda e: (lambda k0: (e.x, e.y)[5])(0))", "Select(ds, lambda e: (lambda ds: (e.x, ds)[5])(e.y))"):
                try:
                    _SHARED.visit(ast.parse(text, mode="eval").body)
                except FuncADLIndexError:
                    pass
        simplifier = _SHARED
        r.labels.append("simplifier-instance-used-before")
    else:
        simplifier = simplify_chained_calls()
    try:
        out = simplifier.visit(work)
    except FuncADLIndexError as e:
        # a variable index into a tuple/list literal can become a constant beyond the end once an argument is substituted
        # for it: then the simplifier's dedicated index error is its documented (C18) behaviour, not a failure
        variable_index = any(isinstance(n, ast.Subscript) and isinstance(n.value, (ast.Tuple, ast.List)) and not isinstance(n.slice, (ast.Constant, ast.Slice))
                             for n in ast.walk(tree))
        if simplifier is _SHARED:
            # nothing of the refused query may linger on in the transformer: a later query with a FREE variable spelled like one
            # of its lambda parameters keeps that variable (a non-constant selector is left as it is)
            for nm in sorted({a.arg for lam in ast.walk(tree) if isinstance(lam, ast.Lambda) for a in lam.args.posonlyargs + lam.args.args + lam.args.kwonlyargs}):
                if nm in ("e_", "ds"):
                    continue
                probe = simplifier.visit(ast.parse(f"Select(ds, lambda e_: (e_.a, e_.b)[{nm}])", mode="eval").body)
                if ast.unparse(probe.args[1].body) != f"(e_.a, e_.b)[{nm}]" and not any(isinstance(n, ast.Name) and n.id == nm for n in ast.walk(probe)):
                    r.fail(f"after the index error for {case['src']} the same transformer turned Select(ds, lambda e_: (e_.a, e_.b)[{nm}]) into {ast.unparse(probe)}")
                    return tree, None, expect
        if allow_index_error or variable_index:
            r.labels.append("FuncADLIndexError")
            return tree, None, expect
        r.fail(f"simplify_chained_calls raised FuncADLIndexError: {e}; input {case['src']}")
        return tree, None, expect
    except Exception as e:
        r.fail(f"simplify_chained_calls raised {type(e).__name__}: {e}; input {case['src']}")
        return tree, None, expect
    if not isinstance(out, ast.AST):
        r.fail(f"simplify_chained_calls returned {out!r}")
        return tree, None, expect
    try:
        ast.dump(out)  # a tree that contains itself (or a non-node) cannot even be walked
    except (RecursionError, Exception) as e:
        r.fail(f"simplify_chained_calls returned a malformed tree ({type(e).__name__} while walking it; a node reachable from itself?); input {case['src']}")
        return tree, None, expect
    return tree, out, expect


def unp(t):
    try:
        return ast.unparse(ast.fix_missing_locations(copy.deepcopy(t)))
    except Exception as e:
        return f"<un-unparsable {type(e).__name__}> " + ast.dump(t)[:300]


def compare_values(case, r: Result, tree, out, expect, total=False):
    fo = pyeval.free_names(tree) | set(pyeval.PRELUDE) | {"_vf_sub", "_vf_slice", "_vf_Rec"}
    try:
        fr = pyeval.free_names(out)
    except Exception as e:
        return r.fail(f"result is malformed ({type(e).__name__}: {e}); input {case['src']}")
    extra = fr - fo
    if extra:
        return r.fail(f"unbound name(s) {sorted(extra)} introduced: {case['src']}  ==>  {unp(out)}")
    if expect is None:
        return r
    env = {"ds": schema.build(case["data"]), "k0": 1, "fn_id": lambda x_: x_, "fn_ok": lambda x_: True}
    try:
        got = pyeval.materialise(pyeval.evaluate(out, env, total))
    except Exception as e:
        return r.fail(f"simplified query raised {type(e).__name__}: {e}: {case['src']}  ==>  {unp(out)}")
    if got != expect:
        return r.fail(f"value changed: {case['src']}  ==>  {unp(out)}; {str(expect)[:200]} vs {str(got)[:200]}")
    return r


def check(case) -> Result:
    r = Result(sample={"src": case["src"], "events": len(case["data"])}, key=case["src"] + repr(case["data"]))
    r.labels.append("naming:" + case.get("naming", "?"))
    tree, out, expect = semantic_check(case, r)
    shape_labels(tree, r)
    if not r.ok or out is None:
        return r
    changed = ast.dump(out) != ast.dump(tree)
    if changed:
        r.labels.append("rewritten")
    r.nontrivial = changed and expect is not None and pyeval.mat_nonempty(expect)
    return compare_values(case, r, tree, out, expect)


def _alpha_rename(tree):
    """rename every lambda parameter apart (u0, u1, ...), respecting scope"""
    t = copy.deepcopy(tree)
    n = [0]

    def go(node, m):
        if isinstance(node, ast.Lambda):
            m2 = dict(m)
            for a in node.args.args:
                n[0] += 1
                m2[a.arg] = f"u{n[0]}"
                a.arg = m2[a.arg]
            go(node.body, m2)
            return
        if isinstance(node, ast.Name) and node.id in m:
            node.id = m[node.id]
        if isinstance(node, ast.Call):
            for kw in node.keywords:
                pass
        for c in ast.iter_child_nodes(node):
            go(c, m)

    go(t, {})
    return t


def selftest():
    from vf.sem.pyeval import Seq

    data = [{"id": 1, "met": 1.5, "run": 2, "nums": [1, 2], "jets": [{"id": 2, "pt": 2.0, "eta": 0.5, "idx": 1, "ok": True, "trks": []}]}]
    env = {"ds": schema.build(data)}
    v = pyeval.evaluate(ast.parse("Select(ds, lambda e: (e.met, Count(e.jets()), {'a': e.run}.a))", mode="eval").body, env)
    assert pyeval.materialise(v) == ("l", (("t", (("f", "1.5"), ("i", 1), ("i", 2))),)), pyeval.materialise(v)
    # prelude function form == Seq method form == list comprehension
    s = Seq([1, 2, 3])
    assert pyeval.Select(s, lambda x: x + 1) == s.Select(lambda x: x + 1) == [x + 1 for x in s]
    assert pyeval.SelectMany(s, lambda x: [x, x]) == [y for x in s for y in [x, x]]
    assert pyeval.free_names(ast.parse("lambda x: (x, y, [z for z in w if q])", mode="eval").body) == {"y", "w", "q"}
