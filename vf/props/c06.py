"""C06 - comprehension and data-class sugar lowers to equivalent queries.

case (a) = {"kind": "comp", "param": p, "body": expression text with comprehensions, "data": dataset json, "form": "sugar"|"string"|"callable", "naming"}
case (b) = {"kind": "dc", "style": "dataclass"|"namedtuple", "fields": [names], "pos": n positional, "kw": [names in written order], "bad": null|"unknown"|"surplus"}
case (c) = {"kind": "malformed", "text": lambda text, "form": "sugar"|"string"}
"""
import ast
import dataclasses
import itertools

from hypothesis import assume
from hypothesis import strategies as st

from vf.common import srcgen
from vf.common.harness import Result
from vf.gen import typed
from vf.sem import pyeval, schema

ID = "C06"
RULE = (
    "(a) lambdas over an event whose body contains list comprehensions and generator expressions with one for clause and "
    "0-3 if clauses, nested in element / iterable / condition position up to depth 3 and inside operator lambdas, target "
    "names colliding with outer lambda parameters and with each other (5 naming schemes), lowered through "
    "resolve_syntatic_sugar on the AST, through Select(string) and through Select(callable); datasets incl. empty "
    "collections. (b) generated @dataclass / NamedTuple classes with 1-4 fields and every split of the arguments into "
    "positional + keyword (any keyword order), exhaustively; (c) malformed uses: tuple targets, async for, unknown keyword, "
    "surplus arguments, starred arguments, a ** spread among the keywords, a keyword naming a field a positional argument already binds, a keyword-only field given by position. Non-trivial = (a) >=1 if clause or a nested comprehension or a name collision, with a non-empty "
    "reference value; (b) >=2 fields with a mixed positional/keyword binding. Distinct by case text."
)
ASSUMPTIONS = [
    "CPython evaluating the original comprehension on python sequences is the reference; the lowered query is evaluated by "
    "CPython under the LINQ prelude; compared exactly as lists. Multiple for clauses are outside the statement.",
    "python's own binder (inspect.signature(C).bind(*a, **k).arguments; the real constructor must also accept the call) is the "
    "oracle for which key receives which argument, compared as a mapping; dataclass variants include an init=False field and a "
    "keyword-only field declared first.",
    "Constructor calls that omit fields or bind a field twice are not generated (python raises TypeError; the statement is silent).",
]
BUDGET = {"quick": (6, 800), "thorough": (16, 6000)}
EXHAUSTIVE_NOTE = "(b): dataclass and NamedTuple with 1-4 fields (plain, with an init=False field, with a keyword-only first field, with defaulted fields that the call may skip; directly and through a helper that uses the constructed value twice) x every positional/keyword split x every keyword order (+ unknown keyword, surplus argument), fully enumerated"
EXHAUSTIVE_SHARDS = {"quick": 4, "thorough": 8}

FIELDS = ["fa", "fb", "fc", "fd"]
ARGS = {"fa": "e.met", "fb": "e.run", "fc": "e.met * 2", "fd": "e.run + 1"}


@st.composite
def _comp_case(draw, maxdepth):
    naming = draw(st.sampled_from(["distinct", "same", "reuse", "reuse", "astnames"]))
    cfg = typed.Cfg(naming=naming, method_form=0.0, comprehension=True, genexp=True, count_fn=False, called_lambdas=draw(st.booleans()),
                    first=draw(st.booleans()), members=typed.MEMBERS)
    cx = typed.Ctx(draw, cfg)
    p = cx.fresh([])
    env = [(p, typed.EVT)]
    depth = draw(st.integers(1, maxdepth))
    src, st_ = typed._source(cx, [(p, typed.EVT)])
    v = cx.fresh(env)
    e2 = typed.bind(env, v, st_)
    k = draw(st.integers(0, 3))
    elt_t = typed.any_type(cx, e2, 1)
    if elt_t[0] == "S":
        elt_t = typed.I
    captured = None
    if v != p and draw(st.integers(0, 2)) == 0:
        # the iterable mentions a captured module constant that has the same name as the loop variable (python evaluates the
        # iterable in the enclosing scope); only meaningful for the callable form, which is then forced below
        member = {"Jet": ".idx", "Trk": ".n"}.get(st_[1] if st_[0] == "O" else None, "" if st_ == typed.I else None)
        if member is not None:
            captured = {"name": v, "value": draw(st.integers(0, 3))}
            src = f"Where({src}, lambda zq: zq{member} <= {v})"
    comp = typed.comprehension(cx, e2, v, src, typed.gen(cx, e2, elt_t, depth), depth)
    if k == 0:
        body = comp
    elif k == 1:
        body = f"Count({comp})"
    elif k == 2:
        w = cx.fresh(env)
        e3 = typed.bind(env, w, elt_t)
        t2 = draw(st.sampled_from([typed.I, typed.F, typed.B]))
        body = typed.comprehension(cx, e3, w, comp, typed.gen(cx, e3, t2, depth - 1), depth - 1)
    else:
        body = f"({comp}, {typed.gen(cx, env, typed.F, depth - 1)})"
    form = draw(st.sampled_from(["sugar", "sugar", "string", "callable"]))
    if captured:
        form = "callable"
    if form == "callable" and "ds" in body.replace("nds", ""):
        assume(not captured)
        form = "string"  # the root dataset would be a (non-transportable) captured variable of the callable
    return {"kind": "comp", "param": p, "body": body, "data": draw(typed.dataset()), "form": form, "naming": naming, "captured": captured}


@st.composite
def _dc_case(draw):
    n = draw(st.integers(1, 4))
    fields = FIELDS[:n]
    if draw(st.integers(0, 14)) == 0:
        # every field given by position although one of them is keyword-only: python's constructor refuses (surplus positional)
        return {"kind": "dc", "style": "dataclass", "fields": fields, "pos": n, "kw": [], "bad": "kwonly-by-position", "variant": "kw_only_first",
                "via": draw(st.sampled_from([None, None, "helper-twice"]))}
    npos = draw(st.integers(0, n))
    kw = draw(st.permutations(fields[npos:]))
    bad = draw(st.sampled_from([None, None, None, None, None, None, "unknown", "surplus", "starred", "spread", "twice"]))
    style = draw(st.sampled_from(["dataclass", "dataclass", "namedtuple", "namedtuple", "namedtuple-sub", "namedtuple-sub2"]))
    variant = draw(st.sampled_from([None, None, "init_false", "kw_only_first", "defaults", "defaults"])) if style == "dataclass" else None
    via = draw(st.sampled_from([None, None, "helper-twice", "called-lambda-twice"]))
    case = {"kind": "dc", "style": style, "fields": fields, "pos": npos, "kw": [], "bad": bad, "variant": variant, "via": via}
    order = _sig_order(case)
    if variant == "kw_only_first":
        case["pos"] = npos = min(npos, n - 1)
    rest = list(order[npos:])
    if variant == "defaults" and not bad:
        if npos == 0:
            case["pos"] = npos = 1  # the first field has no default
            rest = list(order[1:])
        rest = [f for f in rest if draw(st.booleans())]  # defaulted fields may be skipped
    case["kw"] = list(draw(st.permutations(rest)))
    return case


@st.composite
def _malformed_case(draw):
    t = draw(st.sampled_from([
        "lambda e: [a + b for (a, b) in e.pairs]",
        "lambda e: [a for a, b in e.pairs if a > 1]",
        "lambda e: (a for [a, b] in e.pairs)",
        "lambda e: [j.pt async for j in e.jets()]",
        "lambda e: Count([x async for x in e.nums() if x > 1])",
        "lambda e: [[a for a, b in j.pairs] for j in e.jets()]",
    ]))
    return {"kind": "malformed", "text": t, "form": draw(st.sampled_from(["sugar", "string"]))}


def strategy(tier):
    d = 2 if tier == "quick" else 3
    return st.one_of(_comp_case(d), _comp_case(d), _comp_case(d), _dc_case(), _malformed_case())


def exhaustive(tier):
    for style in ("dataclass", "namedtuple"):
        for n in range(1, 5):
            fields = FIELDS[:n]
            for npos in range(n + 1):
                for kw in itertools.permutations(fields[npos:]):
                    yield {"kind": "dc", "style": style, "fields": fields, "pos": npos, "kw": list(kw), "bad": None}
            if style == "dataclass":
                for variant in ("init_false", "kw_only_first"):
                    base = {"kind": "dc", "style": style, "fields": fields, "variant": variant}
                    order = _sig_order(base)
                    for npos in range(n + (0 if variant == "kw_only_first" else 1)):
                        for kw in itertools.permutations(order[npos:]):
                            yield dict(base, pos=npos, kw=list(kw), bad=None)
            if style == "dataclass" and n >= 2:
                for npos in range(1, n + 1):
                    rest = fields[npos:]
                    for k in range(len(rest) + 1):
                        for sub in itertools.combinations(rest, k):
                            for kw in itertools.permutations(sub):
                                for via in (None, "helper-twice"):
                                    yield {"kind": "dc", "style": style, "fields": fields, "variant": "defaults", "pos": npos, "kw": list(kw), "bad": None, "via": via}
            yield {"kind": "dc", "style": style, "fields": fields, "pos": n, "kw": [], "bad": "surplus"}
            yield {"kind": "dc", "style": style, "fields": fields, "pos": max(n - 1, 0), "kw": fields[max(n - 1, 0):], "bad": "unknown"}


class _DS:
    pass


def _has_comp(tree):
    return any(isinstance(n, (ast.ListComp, ast.GeneratorExp, ast.SetComp, ast.DictComp)) for n in ast.walk(tree))


def _check_comp(case, r: Result) -> Result:
    from func_adl import EventDataset
    from func_adl.ast.syntatic_sugar import resolve_syntatic_sugar

    class DS(EventDataset):
        async def execute_result_async(self, a, title=None):
            return a

    p = case["param"]
    text = f"lambda {p}: {case['body']}"
    r.sample = {"lambda": text, "form": case["form"], "events": len(case["data"])}
    r.key = text + case["form"] + repr(case["data"])
    tree = ast.parse(text, mode="eval").body
    comps = [n for n in ast.walk(tree) if isinstance(n, (ast.ListComp, ast.GeneratorExp))]
    n_if = sum(len(g.ifs) for c in comps for g in c.generators)
    nested = any(_has_comp(ast.Module(body=[ast.Expr(x)], type_ignores=[])) for c in comps for x in ([c.elt] + [g.iter for g in c.generators] + [i for g in c.generators for i in g.ifs]))
    targets = [g.target.id for c in comps for g in c.generators if isinstance(g.target, ast.Name)]
    lam_params = [a.arg for l in ast.walk(tree) if isinstance(l, ast.Lambda) for a in l.args.args]
    collide = len(set(targets)) < len(targets) or bool(set(targets) & set(lam_params))
    r.labels += ["form:" + case["form"], f"ifs:{min(n_if, 3)}"]
    if nested:
        r.labels.append("nested-comprehension")
    if collide:
        r.labels.append("target-name-collision")
    if any(isinstance(c, ast.GeneratorExp) for c in comps):
        r.labels.append("generator-expression")

    cap = {case["captured"]["name"]: case["captured"]["value"]} if case.get("captured") else {}
    if cap:
        r.labels.append("captured-constant-named-like-target-in-iterable")
    # reference: CPython runs the comprehension itself
    evs_py = schema.build(case["data"], lazy=False)
    try:
        f = eval(compile(ast.Expression(body=ast.parse(text, mode="eval").body), "<c06-ref>", "eval"),
                 {"ds": evs_py, "Count": lambda s: len(list(s)), "First": lambda s: list(s)[0], "Select": pyeval.Select, "Where": pyeval.Where,
                  "SelectMany": pyeval.SelectMany, "abs": abs, "len": len, **cap})
        want = [pyeval.materialise(f(e)) for e in evs_py]
    except Exception:
        r.ref_error = True
        want = None
    # lowering
    try:
        if case["form"] == "sugar":
            low = resolve_syntatic_sugar(ast.parse(text, mode="eval").body)
        elif case["form"] == "string":
            low = DS().Select(text).query_ast.args[1]
        else:
            pre = "".join(f"{k} = {v!r}\n" for k, v in cap.items())
            with srcgen.module(f"{pre}def build(ds):\n    return ds.Select({text})\n") as mod:
                low = mod.build(DS()).query_ast.args[1]
    except Exception as e:
        return r.fail(f"lowering [{case['form']}] raised {type(e).__name__}: {e}; {text}")
    if _has_comp(low):
        return r.fail(f"a comprehension is left after lowering: {ast.unparse(low)}")
    r.nontrivial = (n_if >= 1 or nested or collide) and want is not None and any(pyeval.mat_nonempty(w) for w in want)
    if want is None:
        return r
    evs = schema.build(case["data"], lazy=True)
    try:
        g = pyeval.evaluate(low, {"ds": evs})
        got = [pyeval.materialise(g(e)) for e in evs]
    except Exception as e:
        return r.fail(f"lowered query raised {type(e).__name__}: {e}; {text}  ==>  {ast.unparse(low)}")
    if got != want:
        return r.fail(f"lowered query computes something else: {text}  ==>  {ast.unparse(low)}; python: {str(want)[:200]}; lowered: {str(got)[:200]}")
    return r


def _sig_order(case):
    """constructor parameters in signature order (python moves keyword-only fields to the end; init=False fields vanish)"""
    fields = case["fields"]
    if case.get("variant") == "kw_only_first" and case["style"] == "dataclass":
        return fields[1:] + fields[:1]
    return fields


def _dc_module(case):
    fields = case["fields"]
    var = case.get("variant") if case["style"] == "dataclass" else None
    if case["style"] == "dataclass":
        lines = []
        for i, f in enumerate(fields):
            if var == "kw_only_first" and i == 0:
                lines.append(f"    {f}: float = field(kw_only=True)\n")
            elif var == "defaults" and i > 0:
                lines.append(f"    {f}: float = 0.0\n")
            else:
                lines.append(f"    {f}: float\n")
            if var == "init_false" and i == 0:
                lines.append("    tag: float = field(init=False, default=0.0)\n")
        cls = "from dataclasses import dataclass, field\n@dataclass\nclass C:\n" + "".join(lines)
    else:
        cls = "from typing import NamedTuple\nclass C(NamedTuple):\n" + "".join(f"    {f}: float\n" for f in fields)
        if case["style"] == "namedtuple-sub":
            # the usual way to give a named tuple methods: derive from it (tuple is then an indirect base only)
            cls = cls.replace("class C(NamedTuple):", "class B_(NamedTuple):") + "class C(B_):\n    def total(self):\n        return 0\n"
        elif case["style"] == "namedtuple-sub2":
            cls = f"from collections import namedtuple\nclass C(namedtuple('C', {fields!r})):\n    def total(self):\n        return 0\n"
    order = _sig_order(case)
    fields = order
    pos = [ARGS[f] for f in fields[: case["pos"]]]
    if case["bad"] == "surplus":
        pos.append("99")
    if case["bad"] == "starred":
        # the positional arguments handed over as one starred expression: nobody can say which fields they bind
        pos = ["*(" + ", ".join(pos + ["e.met"]) + ",)"] if pos else ["*(e.met,)"]
    kws = [f"{f}={ARGS[f]}" for f in case["kw"]]
    if case["bad"] == "spread":
        # one field handed over through a ** mapping: which field it binds is not written in the call
        if kws:
            f = case["kw"][-1]
            kws[-1] = "**{%r: %s}" % (f, ARGS[f])
        else:
            kws = ["**e.m"] if not pos else ["**{%r: %s}" % (fields[len(pos) - 1], pos.pop())]
    if case["bad"] == "twice":
        # a keyword names a field a positional argument already binds (python: multiple values)
        if not pos:
            pos = [ARGS[fields[0]]]
            kws = [k for k in kws if not k.startswith(fields[0] + "=")]
        kws.insert(len(kws) if len(fields) % 2 else 0, f"{fields[0]}=7")
        if len(pos) + len(kws) > len(fields) and len(kws) > 1:
            kws.pop(0 if len(fields) % 2 else -1)  # keep the argument count within the field count
    if case["bad"] == "unknown":
        # the unknown keyword takes the place of one field, so that the argument count alone does not give it away
        if kws:
            kws.pop()
        elif pos:
            pos.pop()
        kws.insert(0 if len(fields) % 2 == 0 else len(kws), "zz=1")  # unknown keyword first or last
    args = pos + kws
    call = f"C({', '.join(args)})"
    if case.get("via") == "helper-twice":
        return cls + f"def twice(h):\n    return (h, h)\ndef build(ds):\n    return ds.Select(lambda e: twice({call}))\n", call
    if case.get("via") == "called-lambda-twice":
        return cls + f"def build(ds):\n    return ds.Select(lambda e: (lambda h: (h, h))({call}))\n", call
    return cls + f"def build(ds):\n    return ds.Select(lambda e: {call})\n", call


class _E:
    met = 1.5
    run = 4


def _check_dc(case, r: Result) -> Result:
    from func_adl import EventDataset

    class DS(EventDataset):
        async def execute_result_async(self, a, title=None):
            return a

    text, call = _dc_module(case)
    r.sample = {"style": case["style"], "call": call}
    r.key = case["style"] + call
    r.labels += ["sugar:" + case["style"], f"fields:{len(case['fields'])}"]
    if case.get("variant"):
        r.labels.append("dataclass-variant:" + case["variant"])
    if case["bad"]:
        r.labels.append("malformed:" + case["bad"])
    r.nontrivial = len(case["fields"]) >= 2 and 0 < case["pos"] < len(case["fields"]) and not case["bad"]
    with srcgen.module(text) as mod:
        try:
            q = mod.build(DS()).query_ast
        except ValueError as e:
            if case["bad"]:
                return r
            return r.fail(f"ValueError for a constructor call python accepts: {call}: {e}")
        except Exception as e:
            return r.fail(f"{call}: raised {type(e).__name__}: {e}")
        if case["bad"]:
            return r.fail(f"malformed constructor call {call} ({case['bad']} argument) was lowered to {ast.unparse(q.args[1])}")
        lam = q.args[1]
        dict_nodes = [lam.body]
        if case.get("via"):
            r.labels.append("via:" + case["via"])
            if not (isinstance(lam.body, ast.Tuple) and len(lam.body.elts) == 2):
                return r.fail(f"twice({call}) was not lowered to a pair: {ast.unparse(lam)}")
            dict_nodes = list(lam.body.elts)
        if not all(isinstance(d, ast.Dict) for d in dict_nodes):
            return r.fail(f"{call} was not lowered to a dictionary: {ast.unparse(lam)}")
        import inspect

        class _Bind:  # python's own binder: which parameter receives which argument
            def __call__(self, *a, **k):
                return dict(inspect.signature(mod.C).bind(*a, **k).arguments)

        want = eval(call, {"C": _Bind(), "e": _E})
        eval(call, {"C": mod.C, "e": _E})  # and the real constructor accepts the call
        for dn in dict_nodes:
            try:
                got = dict(pyeval.evaluate(ast.Lambda(args=lam.args, body=dn), {})(_E))
            except Exception as e:
                return r.fail(f"{call} lowered to a dictionary that cannot be evaluated ({type(e).__name__}: {e}): {ast.dump(dn)[:300]}")
            if sorted(got.items()) != sorted(want.items()):
                return r.fail(f"{call} lowered to {ast.unparse(dn)} = {got}; python's constructor binds {dict(want)}  (whole lambda: {ast.unparse(lam)})")
    return r


def _check_malformed(case, r: Result) -> Result:
    from func_adl import EventDataset
    from func_adl.ast.syntatic_sugar import resolve_syntatic_sugar

    class DS(EventDataset):
        async def execute_result_async(self, a, title=None):
            return a

    r.sample = case
    r.key = case["text"] + case["form"]
    r.labels.append("malformed:" + ("async" if "async" in case["text"] else "tuple-target"))
    try:
        if case["form"] == "sugar":
            out = resolve_syntatic_sugar(ast.parse(case["text"], mode="eval").body)
        else:
            out = DS().Select(case["text"]).query_ast
    except ValueError:
        return r
    except Exception as e:
        return r.fail(f"malformed comprehension raised {type(e).__name__} instead of ValueError: {case['text']}: {e}")
    return r.fail(f"malformed comprehension was accepted: {case['text']}  ==>  {ast.unparse(out)[:200]}")


def check(case) -> Result:
    r = Result()
    if case["kind"] == "comp":
        return _check_comp(case, r)
    if case["kind"] == "dc":
        return _check_dc(case, r)
    return _check_malformed(case, r)


def selftest():
    assert len(list(exhaustive("quick"))) > 100
    t, c = _dc_module({"kind": "dc", "style": "namedtuple", "fields": ["fa", "fb"], "pos": 1, "kw": ["fb"], "bad": None})
    compile(t, "<c06>", "exec")
    assert c == "C(e.met, fb=e.run)"
