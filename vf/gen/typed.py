"""Typed query-expression generator (source text) over a fixed event schema.

Every generated expression is type-correct by construction and therefore executable by CPython on generated
data (the only run-time errors are First() on an empty sequence and the deliberately planted odd selectors).

Types:  ("I",) ("F",) ("B",) ("O", cls) ("S", T) ("T", (T..)) ("L", (T..)) ("R", ((key, T)..))
"""
from __future__ import annotations

from hypothesis import strategies as st

I, F, B = ("I",), ("F",), ("B",)
EVT, JET, TRK = ("O", "Evt"), ("O", "Jet"), ("O", "Trk")


def S(t):
    return ("S", t)


# attribute-style and method-style members: cls -> [(rendering template, type, needs_args)]
MEMBERS = {
    "Evt": [(".met", F), (".run", I), (".jets()", S(JET)), (".nums()", S(I)), (".met", F), (".groups()", S(S(I)))],
    "Jet": [(".pt", F), (".eta", F), (".idx", I), (".ok()", B), (".trks()", S(TRK)), (".scaled({F}, {I})", F), (".pt", F),
            (".scaled(off={I})", F), (".scaled({F}, off={I})", F), (".scaled(off={I}, f={F})", F)],
    "Trk": [(".pt", F), (".n", I), (".good()", B), (".pt", F)],
}
# C01 flavour: everything is a method (what a typed func_adl model looks like), with omitted defaults / keywords
MEMBERS_METHODS = {
    "Evt": [(".met()", F), (".run()", I), (".jets()", S(JET)), (".jets('b')", S(JET)), (".jets(cut={F})", S(JET)),
            (".jets('a', {F})", S(JET)), (".nums()", S(I)), (".groups()", S(S(I))), (".scaled()", F), (".scaled({F})", F), (".scaled(off={I})", F)],
    "Jet": [(".pt()", F), (".eta()", F), (".idx()", I), (".ok()", B), (".trks()", S(TRK)), (".trks(minpt={F})", S(TRK)),
            (".scaled()", F), (".scaled({F})", F), (".scaled(off={I})", F), (".scaled({F}, {I})", F), (".scaled(off={I}, f={F})", F)],
    "Trk": [(".pt()", F), (".n()", I), (".good()", B), (".scaled()", F), (".scaled({I})", F), (".scaled(f={F})", F)],
}

DICT_METHOD_KEYS = ["values", "items", "keys", "get", "copy", "pop", "update"]

NAME_POOLS = {
    "distinct": None,  # fresh names v0, v1, ...
    "same": ["e"],
    "reuse": ["e", "j", "t"],
    "argn": ["arg_0", "arg_1", "arg_2", "arg_3", "arg_5"],
    "argmix": ["e", "j", "arg_0", "t", "arg_1"],  # hand-written names next to names a front end handed out
    "astnames": ["id", "value", "args", "body", "elts", "slice", "func", "n", "s"],
}


class Cfg:
    def __init__(self, naming="distinct", method_form=0.3, members=None, called_lambdas=True, odd_selectors=False,
                 containers=True, ifexp=True, keywords_in_called=True, first=True, lists=True, dict_attr=True,
                 comprehension=False, count_fn=True, first_on_seq=True, genexp=False,
                 captures=False, helpers=False, record_ctor=False, free_scalar=False, first_of_packages=True, higher_order=False, kwonly_in_called=False, dict_method_keys=False, duplicate_keys=True, seq_of_packages=False, starred_literals=False, starred_calls=False, callable_fields=False, odd_operator_lambdas=False):
        self.naming = naming
        self.method_form = method_form
        self.members = members or MEMBERS
        self.called_lambdas = called_lambdas
        self.odd_selectors = odd_selectors
        self.containers = containers
        self.ifexp = ifexp
        self.keywords_in_called = keywords_in_called
        self.first = first
        self.lists = lists
        self.dict_attr = dict_attr
        self.comprehension = comprehension
        self.count_fn = count_fn
        self.first_on_seq = first_on_seq
        self.genexp = genexp
        self.captures = captures
        self.helpers = helpers
        self.record_ctor = record_ctor
        self.first_of_packages = first_of_packages
        self.higher_order = higher_order
        self.kwonly_in_called = kwonly_in_called
        self.dict_method_keys = dict_method_keys
        self.duplicate_keys = duplicate_keys
        self.seq_of_packages = seq_of_packages
        self.starred_literals = starred_literals
        self.starred_calls = starred_calls or starred_literals
        self.callable_fields = callable_fields
        self.odd_operator_lambdas = odd_operator_lambdas
        self.free_scalar = free_scalar


class Ctx:
    """per-case mutable generation context"""

    def __init__(self, draw, cfg: Cfg):
        self.draw = draw
        self.cfg = cfg
        self.n = 0
        self.used_seq_of_packages = False

    def fresh(self, env):
        pool = NAME_POOLS[self.cfg.naming]
        if pool is None:
            self.n += 1
            return f"v{self.n}"
        return self.draw(st.sampled_from(pool))

    def chance(self, p10):
        return self.draw(st.integers(0, 9)) < p10

    def pick(self, seq):
        return self.draw(st.sampled_from(list(seq)))

    def int_(self, lo, hi):
        return self.draw(st.integers(lo, hi))


def bind(env, name, ty):
    """new environment with name bound (shadowing any outer binding of the same name)"""
    return [(n, t) for (n, t) in env if n != name] + [(name, ty)]


def _const(cx: Ctx, ty):
    if cx.cfg.captures and ty in (I, F) and cx.chance(3):
        return "K1" if ty == I else "K2"  # module-level constants of the generated program (captured by value)
    if ty == I:
        return str(cx.int_(0, 5))
    if ty == F:
        return cx.pick(["0.5", "1.0", "2.0", "0.25", "3.5"])
    return cx.pick(["True", "False"])


def _fill(cx, tmpl):
    while "{F}" in tmpl:
        tmpl = tmpl.replace("{F}", _const(cx, F), 1)
    while "{I}" in tmpl:
        tmpl = tmpl.replace("{I}", _const(cx, I), 1)
    return tmpl


def paths(cx: Ctx, env, maxdepth=3):
    """all (expr text, type) reachable from variables in scope by member access / constant projection"""
    out = []

    def go(expr, ty, d):
        out.append((expr, ty))
        if d <= 0:
            return
        k = ty[0]
        if k == "O":
            seen = set()
            for tmpl, t in cx.cfg.members[ty[1]]:
                if (tmpl, t) in seen:
                    continue
                seen.add((tmpl, t))
                go(expr + tmpl, t, d - 1)
        elif k in ("T", "L"):
            for i, t in enumerate(ty[1]):
                go(f"{expr}[{i}]", t, d - 1)
        elif k == "R":
            for key, t in ty[1]:
                go(f"{expr}[{key!r}]", t, d - 1)
                if cx.cfg.dict_attr and isinstance(key, str):
                    go(f"{expr}.{key}", t, d - 1)
        elif k == "D":
            for key, t in ty[1]:
                go(f"{expr}.{key}", t, d - 1)

    for name, ty in env:
        go(name, ty, maxdepth)
    return out


def pick_path(cx: Ctx, env, want):
    c = [e for e, t in paths(cx, env) if t == want]
    if not c:
        return None
    return _fill(cx, cx.pick(c))


def seq_paths(cx, env):
    return [(e, t) for e, t in paths(cx, env) if t[0] == "S"]


# ------------------------------------------------------------------------------------------------


def gen(cx: Ctx, env, ty, depth) -> str:
    """an expression of exactly type ty"""
    k = ty[0]
    if k in ("I", "F", "B"):
        return _scalar(cx, env, ty, depth)
    if k == "O":
        return _obj(cx, env, ty, depth)
    if k == "S":
        return _seq(cx, env, ty[1], depth)
    if k in ("T", "L", "R") and cx.cfg.first and cx.cfg.first_of_packages and depth >= 1 and cx.chance(2) and (cx.cfg.first_on_seq or not _contains_seq(ty)):
        # the package is the First() of a sequence of packages: a later projection reaches the First only after substitution
        src, st_ = _source(cx, env)
        w = cx.fresh(env)
        return _first(cx, _op(cx, "Select", src, f"lambda {w}: {gen(cx, bind(env, w, st_), ty, depth - 1)}"))
    if k in ("T", "L"):
        p = pick_path(cx, env, ty) if cx.chance(2) else None
        if p:
            return p
        items = [gen(cx, env, t, depth - 1) for t in ty[1]]
        if k == "T":
            return "(" + ", ".join(items) + ("," if len(items) == 1 else "") + ")"
        return "[" + ", ".join(items) + "]"
    if k == "R":
        p = pick_path(cx, env, ty) if cx.chance(2) else None
        if p:
            return p
        items = [f"{key!r}: {gen(cx, env, t, depth - 1)}" for key, t in ty[1]]
        if cx.cfg.duplicate_keys and cx.chance(1):
            # a key written twice: as in python, the LAST value is the one that counts
            key, t = ty[1][0]
            items.insert(0, f"{key!r}: {gen(cx, env, t, 0)}")
        return "{" + ", ".join(items) + "}"
    if k == "D":  # record built with a dataclass / NamedTuple constructor (sugar), read by attribute
        p = pick_path(cx, env, ty) if cx.chance(2) else None
        if p:
            return p
        n = len(ty[1])
        cls = cx.pick([f"R{n}", f"N{n}"])
        if [k for k, _ in ty[1]] == ["f_a", "f_c"]:
            # a class with a defaulted middle field that the call skips: Q3(f_a, f_b=None, f_c=None)
            a, c = (gen(cx, env, t, depth - 1) for _, t in ty[1])
            return cx.pick([f"Q3({a}, f_c={c})", f"Q3(f_c={c}, f_a={a})", f"QN3({a}, f_c={c})", f"Q3(f_a={a}, f_c={c})"])
        npos = cx.int_(0, n)
        items = [gen(cx, env, t, depth - 1) for _, t in ty[1]]
        kws = [f"{key}={it}" for (key, _), it in list(zip(ty[1], items))[npos:]]
        kws = list(cx.draw(st.permutations(kws)))
        return f"{cls}({', '.join(items[:npos] + kws)})"
    raise ValueError(ty)


def _contains_seq(ty):
    if ty[0] == "S":
        return True
    if ty[0] in ("T", "L"):
        return any(_contains_seq(t) for t in ty[1])
    if ty[0] in ("R", "D"):
        return any(_contains_seq(t) for _, t in ty[1])
    return False


def _first(cx: Ctx, s: str) -> str:
    return f"{_recv(s)}.First()" if cx.chance(int(cx.cfg.method_form * 10)) else f"First({s})"


def _wrappers(cx: Ctx, env, ty, depth, inner_fn):
    """optionally reach `ty` through a construct that the rewrites must see through"""
    c = cx.int_(0, 11) if depth > 0 else 99
    cfg = cx.cfg
    if c == 0 and cfg.called_lambdas:
        return _called_lambda(cx, env, ty, depth)
    if c == 1 and cfg.containers:
        # projection of a freshly built literal
        n = cx.int_(1, 3)
        pos = cx.int_(0, n - 1)
        tys = [(ty if i == pos else any_type(cx, env, 1)) for i in range(n)]
        kind = cx.pick((["T", "L", "R"] if cfg.lists else ["T", "R"]) + (["D"] if cfg.record_ctor else []))
        if cfg.starred_literals and kind in ("T", "L") and cx.chance(2):
            # a starred element in front: which element sits at a position is only known at run time
            other = gen(cx, env, ty, 0)
            inner = gen(cx, env, ty, depth - 1)
            seqlit = cx.pick([f"({other},)", "()", f"({other}, {other})"])
            idx = {f"({other},)": 1, "()": 0, f"({other}, {other})": 2}[seqlit]
            lit = f"(*{seqlit}, {inner})" if kind == "T" else f"[*{seqlit}, {inner}]"
            return f"{lit}[{idx}]"
        if cfg.callable_fields and kind in ("T", "L") and cfg.called_lambdas and cx.chance(2):
            # the position reaches the subscript through a (defaulted / keyword) parameter of a called lambda: `nth(p)` / `nth(p, i_=1)`
            t_, i_ = cx.fresh(env), "i_"
            lit = gen(cx, env, (kind, tuple(tys)), depth - 1)
            call = cx.pick([f"{lit}", f"{lit}, {i_}={pos}", f"{lit}, {pos}"])
            return f"(lambda {t_}, {i_}={pos}: {t_}[{i_}])({call})"
        if cfg.callable_fields and kind == "R" and cfg.dict_attr and ty in (I, F, B) and cx.chance(2):
            # a field that holds a function, read by attribute and called on the spot: `{'f_a': <lambda>, ..}.f_a(x)`
            q_ = cx.fresh(env)
            body = gen(cx, bind(env, q_, I), ty, depth - 1)
            other = gen(cx, env, any_type(cx, env, 1), 0)
            return f"{{'f_a': (lambda {q_}: {body}), 'f_b': {other}}}.f_a({gen(cx, env, I, 0)})"
        if cfg.starred_literals and kind == "R" and cx.chance(2):
            # a ** entry after the key may override it
            inner = gen(cx, env, ty, depth - 1)
            other = gen(cx, env, ty, 0)
            return cx.pick([f"{{'f_a': {other}, **{{'f_a': {inner}}}}}['f_a']", f"{{**{{'f_a': {other}}}, 'f_a': {inner}}}['f_a']",
                            # a computed key that happens to be the same key, after the constant one
                            f"{{'f_a': {other}, ('f_a' if True else 'f_z'): {inner}}}['f_a']", f"{{'f_a': {inner}, ('f_a' if False else 'f_z'): {other}}}['f_a']"])
        if kind == "D":  # field of a record built on the spot with a dataclass / NamedTuple constructor (sugar in any position)
            keys = [f"f_{chr(97 + i)}" for i in range(n)]
            return f"{gen(cx, env, ('D', tuple(zip(keys, tys))), depth - 1)}.{keys[pos]}"
        if kind == "R":
            keys = [f"f_{chr(97 + i)}" for i in range(n)]
            lit = gen(cx, env, ("R", tuple(zip(keys, tys))), depth - 1)
            return f"{lit}['{keys[pos]}']" if (cx.chance(5) or not cfg.dict_attr) else f"{lit}.{keys[pos]}"
        lit = gen(cx, env, (kind, tuple(tys)), depth - 1)
        return f"{lit}[{pos}]"
    if c == 2 and cfg.ifexp and ty[0] in ("I", "F", "B", "O"):
        # the test is a boolean expression, or a constant of another type (python's truthiness: a '0 means off' setting)
        test = cx.pick(["1", "2", "0", "1.5", "0.0", "'on'", "''"]) if cx.chance(2) else gen(cx, env, B, depth - 1)
        return f"({inner_fn()} if {test} else {gen(cx, env, ty, depth - 1)})"
    if c == 3 and cfg.first and (cfg.first_on_seq or ty[0] != "S"):
        return _first(cx, _seq(cx, env, ty, depth - 1))
    if c in (4, 7, 8) and cfg.odd_selectors:
        return _odd(cx, env, ty, depth)
    if c in (5, 6) and cfg.first and depth >= 1 and (cfg.first_on_seq or ty[0] != "S"):
        # projection / member / method call applied to First(...): First(seq).attr, First(seq)[0], First(seq).m(args)
        cands = []
        for cls, members in cfg.members.items():
            for tmpl, t in members:
                if t == ty:
                    cands.append((("O", cls), tmpl))
        k = cx.int_(0, 2)
        if k == 0 and cands:
            xt, proj = cx.pick(cands)
            proj = _fill(cx, proj)
        elif k == 1 or not cfg.containers:
            other = any_type(cx, env, 1)
            pos = cx.int_(0, 1)
            xt = ("T", (ty, other) if pos == 0 else (other, ty))
            proj = f"[{pos}]"
        else:
            xt = ("R", (("f_a", any_type(cx, env, 1)), ("f_b", ty)))
            proj = ".f_b" if (cfg.dict_attr and cx.chance(5)) else "['f_b']"
        return f"{_first(cx, _seq(cx, env, xt, depth - 1))}{proj}"
    return inner_fn()


def filter_body(cx: Ctx, env, depth):
    """predicate of a Where: about half of them get deliberate top-level boolean structure (or / and / not / conditional /
    chained comparison), because filter fusion rewrites exactly that level"""
    c = cx.int_(0, 11)
    d = max(depth - 1, 0)
    if c <= 5:
        return gen(cx, env, B, depth)
    a, b = gen(cx, env, B, d), gen(cx, env, B, d)
    if c <= 7:
        return f"{a} or {b}"
    if c == 8:
        return cx.pick([f"{a} and {b}", f"{a} or {b} or {gen(cx, env, B, d)}", f"{a} and {b} or {gen(cx, env, B, d)}"])
    if c == 9:
        return cx.pick([f"not ({a} or {b})", f"not {a}"])
    if c == 10:
        return f"{a} if {gen(cx, env, B, d)} else {b}"
    t = cx.pick([I, F])
    return f"{_const(cx, t)} {cx.pick(['<', '<='])} {gen(cx, env, t, d)} {cx.pick(['<', '<=', '!='])} {gen(cx, env, t, d)}"


def _scalar(cx: Ctx, env, ty, depth):
    def base():
        if depth <= 0:
            p = pick_path(cx, env, ty)
            return p if (p and cx.chance(8)) else _const(cx, ty)
        c = cx.int_(0, 9)
        if ty == B:
            if c <= 4:
                t = cx.pick([I, F])
                return f"({gen(cx, env, t, depth - 1)} {cx.pick(['>', '<', '>=', '<=', '==', '!='])} {gen(cx, env, t, depth - 1)})"
            if c == 5:
                return f"({gen(cx, env, B, depth - 1)} {cx.pick(['and', 'or'])} {gen(cx, env, B, depth - 1)})"
            if c == 6:
                return f"(not {gen(cx, env, B, depth - 1)})"
            p = pick_path(cx, env, B)
            return p or f"({gen(cx, env, I, depth - 1)} > {_const(cx, I)})"
        if c <= 2:
            p = pick_path(cx, env, ty)
            if p:
                return p
        if c <= 4:
            op = cx.pick(["+", "-", "*"])
            other = ty if ty == I else cx.pick([F, F, I])
            a, b = gen(cx, env, ty, depth - 1), gen(cx, env, other, depth - 1)
            return f"({a} {op} {b})" if cx.chance(5) else f"({b} {op} {a})" if other == ty else f"({a} {op} {b})"
        if c == 5 and ty == F:
            return f"({gen(cx, env, cx.pick([I, F]), depth - 1)} / {cx.pick(['2', '4', '0.5', '8.0'])})"
        if c == 5 and ty == I:
            s = _seq(cx, env, any_elem(cx, env), depth - 1)
            if cx.chance(int(cx.cfg.method_form * 10)):
                return f"{_recv(s)}.Count()"
            return f"Count({s})" if (cx.chance(7) or not cx.cfg.count_fn) else f"len({s})"
        if c == 6:
            return f"(-{gen(cx, env, ty, depth - 1)})"
        if c == 9 and cx.chance(6):
            # a variable in scope used AFTER a nested operator (whose binder may re-use its name under the naming pools):
            # scope bookkeeping that leaks out of the nested lambda shows here
            pp = [e for e, t in paths(cx, env) if t == ty]
            withargs = [e for e in pp if "(" in e and "()" not in e[-2:] or "scaled" in e]
            if pp:
                later = _fill(cx, cx.pick(withargs if (withargs and cx.chance(7)) else pp))
                sp = seq_paths(cx, env)
                osp = [(e, t) for e, t in sp if t[1][0] == "O"]
                if sp:
                    ie, ity = cx.pick(osp if (osp and cx.chance(8)) else sp)
                    v = cx.fresh(env)
                    iop = cx.pick(["Select", "Where"])
                    s_ = _op(cx, iop, _fill(cx, ie), f"lambda {v}: {gen(cx, bind(env, v, ity[1]), B if iop == 'Where' else cx.pick([F, I]), max(depth - 2, 0))}")
                else:
                    s_ = _seq(cx, env, any_elem(cx, env), max(depth - 1, 1))
                first = f"{_recv(s_)}.Count()" if cx.chance(int(cx.cfg.method_form * 10)) else f"Count({s_})"
                return cx.pick([f"({first} + {later})", f"({first}, {later})[1]", f"({later} if {first} >= 0 else {later})"])
        if c in (7, 8, 9) and cx.cfg.helpers and cx.chance(7):
            if cx.chance(5):
                return f"hscale({gen(cx, env, ty, depth - 1)})"
            a, b = gen(cx, env, ty, depth - 1), gen(cx, env, ty, depth - 1)
            return cx.pick([f"hadd({a}, {b})", f"hadd(b={b}, a={a})", f"hadd({a})", f"hsecond({a}, {b})", f"hsub({a}, {b})", f"hsub({a}, {b})", f"hsub(b={b}, a={a})"])
        if c == 7:
            return f"abs({gen(cx, env, ty, depth - 1)})"
        p = pick_path(cx, env, ty)
        return p or _const(cx, ty)

    return _wrappers(cx, env, ty, depth, base)


def _obj(cx: Ctx, env, ty, depth):
    def base():
        p = pick_path(cx, env, ty)
        if p:
            return p
        # always reachable from the root dataset
        if ty == EVT:
            return _first(cx, "ds")
        if ty == JET:
            return _first(cx, f"{_obj(cx, env, EVT, depth - 1)}{_fill(cx, cx.pick([m for m, t in cx.cfg.members['Evt'] if t == S(JET)]))}")
        return _first(cx, f"{_obj(cx, env, JET, depth - 1)}{_fill(cx, cx.pick([m for m, t in cx.cfg.members['Jet'] if t == S(TRK)]))}")

    return _wrappers(cx, env, ty, depth, base) if depth > 0 else base()


def any_elem(cx: Ctx, env):
    """element type of some sequence that is easy to obtain"""
    c = [t[1] for _, t in seq_paths(cx, env)]
    return cx.pick(c) if c else EVT


def any_type(cx: Ctx, env, depth):
    """a random type whose values are constructible in env"""
    c = cx.int_(0, 9)
    if depth <= 0 or c <= 4:
        avail = [t for _, t in paths(cx, env, 1) if t[0] in ("I", "F", "B", "O")]
        return cx.pick([I, F] + avail[:6])
    if c == 6 and cx.cfg.containers and cx.cfg.record_ctor:
        n = cx.int_(1, 3)
        if n == 2 and cx.chance(5):
            return ("D", (("f_a", any_type(cx, env, depth - 1)), ("f_c", any_type(cx, env, depth - 1))))
        return ("D", tuple((f"f_{chr(97 + i)}", any_type(cx, env, depth - 1)) for i in range(n)))
    if c <= 6 and cx.cfg.containers:
        n = cx.int_(1, 3)
        return (cx.pick(["T", "T", "L"]) if cx.cfg.lists else "T", tuple(any_type(cx, env, depth - 1) for _ in range(n)))
    if c == 7 and cx.cfg.containers:
        n = cx.int_(1, 3)
        kind = "D" if (cx.cfg.record_ctor and cx.chance(6)) else "R"
        if kind == "R" and cx.chance(3):
            # a dictionary keyed by integers (column number -> value), written in an order that is NOT the positional one
            keys = cx.pick([(1, 0, 2), (0, 1, 2), (2, 5, 0), (7, 1, 3)])[:n]
            return ("R", tuple((key, any_type(cx, env, depth - 1)) for key in keys))
        if kind == "R" and cx.cfg.dict_method_keys and cx.chance(3):
            # field names that are also attributes of python's dict: for func_adl `p.values` is the field
            keys = cx.draw(st.permutations(DICT_METHOD_KEYS))[:n]
            return ("R", tuple((key, any_type(cx, env, depth - 1)) for key in keys))
        return (kind, tuple((f"f_{chr(97 + i)}", any_type(cx, env, depth - 1)) for i in range(n)))
    if c == 8 and cx.cfg.seq_of_packages and cx.cfg.containers and cx.chance(5):
        # a sequence whose ELEMENTS are packages: built by a Select in the producing stage, taken apart element by element later
        kind = cx.pick(["T", "T", "L", "R"]) if cx.cfg.lists else cx.pick(["T", "R"])
        cx.used_seq_of_packages = True
        et = [cx.pick([I, F]), cx.pick([I, F, B])]
        return S(("R", (("f_a", et[0]), ("f_b", et[1]))) if kind == "R" else (kind, tuple(et)))
    if c == 8:
        sp = [t for _, t in seq_paths(cx, env)]
        return cx.pick(sp) if sp else I
    return cx.pick([I, F, B])


def _recv(s: str) -> str:
    return s if (s[0].isalpha() or s[0] == "_") and all(ch not in s for ch in " ") and not s.startswith("lambda") else f"({s})"


def _op(cx: Ctx, op, src, lam):
    if cx.cfg.odd_operator_lambdas and cx.chance(1):
        # the operator's lambda declares its parameter positional-only, or has a second, defaulted parameter that it uses
        import re

        m = re.match(r"lambda (\w+): (.*)$", lam, re.S)
        if m and "kk_" not in lam:
            v, body = m.group(1), m.group(2)
            if op == "Where" and cx.chance(5):
                lam = f"lambda {v}, kk_=1: ({body}) and kk_ == 1"
            else:
                lam = f"lambda {v}, /: {body}"
    if cx.chance(int(cx.cfg.method_form * 10)):
        return f"{_recv(src)}.{op}({lam})"
    return f"{op}({src}, {lam})"


def _seq(cx: Ctx, env, elem, depth):
    """an expression of type S(elem)"""
    want = S(elem)

    def base():
        p = pick_path(cx, env, want)
        if p and (depth <= 0 or cx.chance(3)):
            return p
        if depth <= 0:
            if p:
                return p
            # Select over some source producing elem
            src, st_ = _source(cx, env)
            v = cx.fresh(env)
            return _op(cx, "Select", src, f"lambda {v}: {gen(cx, bind(env, v, st_), elem, 0)}")
        c = cx.int_(0, 9)
        if c <= 4:  # Select(any seq, v -> elem)
            src, st_ = any_seq(cx, env, depth - 1)
            v = cx.fresh(env)
            return _op(cx, "Select", src, f"lambda {v}: {gen(cx, bind(env, v, st_), elem, depth - 1)}")
        if c <= 6:  # Where(S elem, v -> bool)
            src = _seq(cx, env, elem, depth - 1)
            v = cx.fresh(env)
            return _op(cx, "Where", src, f"lambda {v}: {filter_body(cx, bind(env, v, elem), depth - 1)}")
        if c <= 8:  # SelectMany(any seq, v -> S elem)
            src, st_ = any_seq(cx, env, depth - 1)
            v = cx.fresh(env)
            return _op(cx, "SelectMany", src, f"lambda {v}: {_seq(cx, bind(env, v, st_), elem, depth - 1)}")
        if cx.cfg.comprehension:
            src, st_ = any_seq(cx, env, depth - 1)
            v = cx.fresh(env)
            e2 = bind(env, v, st_)
            return comprehension(cx, e2, v, src, gen(cx, e2, elem, depth - 1), depth)
        return p or _seq(cx, env, elem, depth - 1)

    return _wrappers(cx, env, want, depth, base) if depth > 0 and cx.chance(2) else base()


def comprehension(cx: Ctx, e2, v, src, elt, depth):
    """render a single-for comprehension (list or generator expression) with 0-3 if clauses"""
    ifs = "".join(f" if {gen(cx, e2, B, max(depth - 1, 0))}" for _ in range(cx.int_(0, 3) if cx.chance(6) else 0))
    vt = dict(e2).get(v)
    sp = seq_paths(cx, [(v, vt)]) if vt is not None else []
    if sp and cx.chance(3):
        # a guard pair: the FIRST clause loops over a member sequence (nested comprehension / lambda), the SECOND one is plain
        # and only defined for elements that passed the first (python evaluates the clauses left to right)
        se, _ = cx.pick(sp)
        seq = _fill(cx, se)
        w = cx.fresh(e2)
        guard = cx.pick([f"len([{w} for {w} in {seq}]) > 0", f"Count(Where({seq}, lambda {w}: True)) > 0"])
        ifs = f" if {guard} if First({seq}) == First({seq})" + ifs
    if cx.chance(2):
        # a condition with boolean structure of its own: an `or` group inside an `and` (it is ONE condition)
        b1, b2, b3 = (gen(cx, e2, B, 0) for _ in range(3))
        ifs += cx.pick([f" if {b1} and ({b2} or {b3})", f" if ({b1} or {b2}) and {b3}", f" if not ({b1} and {b2}) or {b3}"])
    if cx.cfg.genexp and cx.chance(3):
        return f"({elt} for {v} in {src}{ifs})"
    return f"[{elt} for {v} in {src}{ifs}]"


def _source(cx: Ctx, env):
    sp = seq_paths(cx, env)
    e, t = cx.pick(sp) if sp else ("ds", S(EVT))
    return _fill(cx, e), t[1]


def any_seq(cx: Ctx, env, depth):
    """(expr, element type) of a sequence with a freely chosen element type"""
    if depth <= 0 or cx.chance(4):
        return _source(cx, env)
    src, st_ = any_seq(cx, env, depth - 1)
    v = cx.fresh(env)
    e2 = bind(env, v, st_)
    c = cx.int_(0, 9)
    if cx.cfg.comprehension and cx.chance(5):
        t = any_type(cx, e2, 2)
        if t[0] == "S":
            t = I
        return comprehension(cx, e2, v, src, gen(cx, e2, t, depth - 1), depth), t
    if c <= 5:
        t = any_type(cx, e2, 2)
        if t[0] == "S":
            t = I
        return _op(cx, "Select", src, f"lambda {v}: {gen(cx, e2, t, depth - 1)}"), t
    if c <= 7:
        return _op(cx, "Where", src, f"lambda {v}: {filter_body(cx, e2, depth - 1)}"), st_
    inner, it = any_seq(cx, e2, depth - 1)
    return _op(cx, "SelectMany", src, f"lambda {v}: {inner}"), it


def _called_lambda(cx: Ctx, env, ty, depth):
    if cx.cfg.higher_order and ty[0] == "S" and cx.chance(3):
        # the operator's lambda reaches it through a parameter of a called lambda
        src, st_ = _source(cx, env)
        f, w = cx.fresh(env), cx.fresh(env)
        if f != w:
            body = gen(cx, bind(env, w, st_), ty[1], depth - 1)
            return f"(lambda {f}: Select({src}, {f}))(lambda {w}: {body})"
    if cx.cfg.starred_literals and ty in (I, F) and cx.chance(1):
        # the arguments of a called lambda handed over as one starred tuple / as a ** mapping
        a, b = gen(cx, env, ty, depth - 1), gen(cx, env, ty, 0)
        p, q = cx.fresh(env), cx.fresh(env)
        if p != q:
            return cx.pick([f"(lambda {p}, {q}: {p} - {q})(*({a}, {b}))", f"(lambda {p}, {q}: {p} - {q})(**{{'{p}': {a}, '{q}': {b}}})", f"(lambda {p}, {q}: {p} - {q})({a}, *({b},))"])
    if cx.cfg.starred_calls and ty == I and cx.chance(1) and seq_paths(cx, env):
        # a sequence handed over as star-arguments to a lambda that takes any number of them (no literal involved: a value like
        # any other, also as a member of a package)
        se, sty = cx.pick(seq_paths(cx, env))
        r_ = cx.fresh(env)
        return f"(lambda *{r_}: Count({r_}))(*{_fill(cx, se)})"
    if ty in (I, F) and cx.chance(1):
        # a parameterless called lambda (what an inlined zero-argument helper looks like), with a use of the variables in scope
        # to its right
        return f"((lambda: {gen(cx, env, ty, depth - 1)})() + {gen(cx, env, ty, 0)})"
    if cx.cfg.higher_order and ty == I and cx.chance(2) and seq_paths(cx, env):
        # a sequence-valued argument (itself a Where / Select) that the called lambda uses twice as the source of further operators
        se, sty = cx.pick(seq_paths(cx, env))
        elem = sty[1]
        w = cx.fresh(env)
        if cx.chance(7):
            arg = _op(cx, "Where", _fill(cx, se), f"lambda {w}: {filter_body(cx, bind(env, w, elem), 1)}")
        else:
            arg = _op(cx, "Select", _fill(cx, se), f"lambda {w}: {w}")
        sname = cx.fresh(env)
        e_in = bind(env, sname, S(elem))

        def use():
            v = cx.fresh(e_in)
            return f"Count({_op(cx, 'Where', sname, f'lambda {v}: {filter_body(cx, bind(e_in, v, elem), 1)}')})"

        return f"(lambda {sname}: {use()} {cx.pick(['+', '-', '*'])} {use()})({arg})"
    if cx.cfg.higher_order and ty == I and cx.chance(1):
        # self-application: terminates in python (n steps); a rewriter that unfolds applied lambda arguments eagerly does not
        f = cx.fresh(env)
        g = cx.fresh(env)
        while g == f:
            g += "_"
        n = cx.fresh(env)
        while n in (f, g):
            n += "_"
        return f"(lambda {f}: {f}({f}, {cx.int_(1, 3)}))(lambda {g}, {n}: {n} if {n} == 0 else {g}({g}, {n} - 1) + {cx.int_(1, 4)})"
    if cx.cfg.higher_order and ty in (I, F) and cx.chance(3):
        # a lambda handed to a called lambda and applied there twice with different arguments
        fn = cx.fresh(env)
        e_in = bind(env, fn, ("FN",))
        pt = cx.pick([I, I, F])
        p = cx.fresh(env)
        inner = gen(cx, bind(env, p, pt), ty, depth - 1)
        a1, a2 = gen(cx, e_in, pt, max(depth - 2, 0)), gen(cx, e_in, pt, max(depth - 2, 0))
        if a1 == a2 and pt == I:
            a2 = f"({a2} + 1)"
        return f"(lambda {fn}: {fn}({a1}) {cx.pick(['+', '-', '*'])} {fn}({a2}))(lambda {p}: {inner})"
    n = cx.int_(1, 3)
    if cx.cfg.free_scalar and n == 1 and cx.chance(5):
        n = 2
    names, tys, args = [], [], []
    e2 = env
    for i in range(n):
        nm = cx.fresh(e2)
        if cx.cfg.free_scalar and i < n - 1 and cx.chance(5):
            nm = "k0"  # an earlier parameter named like the query's free scalar variable (which only defaults may mention)
        while nm in names:
            nm = nm + "_"
        t = any_type(cx, env, 1)
        names.append(nm)
        tys.append(t)
        args.append(gen(cx, env, t, depth - 1))
    for nm, t in zip(names, tys):
        e2 = bind(e2, nm, t)
    body = gen(cx, e2, ty, depth - 1)
    if cx.cfg.keywords_in_called and tys[-1] in (I, F, B) and cx.chance(4 if cx.cfg.free_scalar else 2):
        # the last parameter has a default value and the call omits it
        # the default is evaluated in the ENCLOSING scope: it may mention outer variables, also ones named like a parameter
        dflt = gen(cx, env, tys[-1], 0)
        if cx.cfg.free_scalar and cx.chance(5):
            # k0 is a free variable of the whole query that occurs only in default values
            other = gen(cx, env, tys[-1], 0)
            dflt = cx.pick([f"({dflt}, {other})[k0]", f"[{other}, {dflt}][k0 - 1]"] + (["k0", "(k0 + 1)"] if tys[-1] == I else []))
        params = names[:-1] + [f"{names[-1]}={dflt}"]
        if n >= 2 and cx.chance(3):
            # some of the leading parameters are positional-only (declared before `/`); the defaults belong to the LAST parameters
            # of positional-only + ordinary ones together
            params.insert(cx.int_(1, n - 1), "/")
        if cx.chance(5):
            # the defaulted parameter is GIVEN at the call all the same (by position or by keyword): the given value counts
            last = args[-1]
            if (ty == F and tys[-1] in (I, F)) or (ty == I and tys[-1] == I):
                # ... and it shows in the result: the body uses the parameter, the given value differs from the default
                body = f"({body} + {names[-1]})"
                last = f"({dflt} + 1)" if cx.chance(5) else f"({last} + 1)"
            given = args[:-1] + [last] if cx.chance(5) else args[:-1] + [f"{names[-1]}={last}"]
            return f"(lambda {', '.join(params)}: {body})({', '.join(given)})"
        return f"(lambda {', '.join(params)}: {body})({', '.join(args[:-1])})"
    if cx.cfg.keywords_in_called and cx.cfg.kwonly_in_called and cx.chance(2):
        # keyword-only parameters (the last one possibly defaulted and omitted by the call)
        cut = cx.int_(0, n - 1)
        kwo = list(range(cut, n))
        omit = tys[-1] in (I, F, B) and cx.chance(5)
        decl = [names[i] for i in kwo]
        if omit:
            decl[-1] = f"{names[-1]}={gen(cx, env, tys[-1], 0)}"
            kwo = kwo[:-1]
        order = list(cx.draw(st.permutations(kwo)))
        call = args[:cut] + [f"{names[i]}={args[i]}" for i in order]
        return f"(lambda {', '.join(names[:cut] + ['*'] + decl)}: {body})({', '.join(call)})"
    if cx.cfg.keywords_in_called and cx.chance(4):
        npos = cx.int_(0, n - 1)
        order = list(range(npos, n))
        order = cx.draw(st.permutations(order))
        call = args[:npos] + [f"{names[i]}={args[i]}" for i in order]
    else:
        call = args
    return f"(lambda {', '.join(names)}: {body})({', '.join(call)})"


def _odd(cx: Ctx, env, ty, depth):
    """literal projections with variable / negative / slice / out-of-range / absent-key selectors (C18)"""
    c = cx.int_(0, 6)
    n = cx.int_(2, 3)
    kind = cx.pick(["T", "L"])
    items = [gen(cx, env, ty, depth - 1) for _ in range(n)]
    lit = "(" + ", ".join(items) + ")" if kind == "T" else "[" + ", ".join(items) + "]"
    # the literal may be written in place, or reach the selector only by substitution (argument of a called lambda, First() of a
    # sequence of literals): `via(literal, suffix)` renders either
    def via(target, suffix, tty):
        k = cx.int_(0, 9)
        if k <= 5 or not cx.cfg.called_lambdas:
            return f"{target}{suffix(env)}"
        v = cx.fresh(env)
        e2 = bind(env, v, tty)
        if k == 8 and cx.cfg.keywords_in_called and tty[0] in ("T", "L"):
            # the literal arrives through a positional-only parameter, the (in range) index through the default value of the
            # next one: defaults belong to the last of positional-only + ordinary parameters together
            i_ = cx.fresh(e2)
            return f"(lambda {v}, /, {i_}={cx.int_(0, n - 1)}: {v}[{i_}])({target})"
        if k <= 8:
            return f"(lambda {v}: {v}{suffix(e2)})({target})"
        src, st_ = _source(cx, env)
        w = cx.fresh(env)
        return f"First(Select({src}, lambda {w}: {target})){suffix(env)}" if w not in target else f"{target}{suffix(env)}"

    tty = (kind, tuple(ty for _ in range(n)))
    if c == 0:  # variable index (all elements have type ty)
        return via(lit, lambda e_: (f"[{gen(cx, e_, I, 0)} % {n}]" if cx.chance(5) else f"[{gen(cx, e_, I, 0)}]"), tty)
    if c == 1:  # negative index, in range or beyond the start
        return via(lit, lambda e_: f"[-{cx.int_(1, n + 2)}]", tty)
    if c == 2:
        return via(lit, lambda e_: f"[{cx.int_(0, 1)}:{cx.int_(1, n)}][0]", tty)
    if c == 3:  # planted out of range constant index
        return f"{lit}[{n + cx.int_(0, 2)}]"
    if c == 6:  # a constant that is not an int index: bool works in python, the others make python raise TypeError
        return f"{lit}[{cx.pick(['True', 'False', 'True', repr('f_a'), '0.5', 'None', repr('0')])}]"
    d = "{" + ", ".join(f"'f_{chr(97 + i)}': {it}" for i, it in enumerate(items)) + "}"
    dty = ("R", tuple((f"f_{chr(97 + i)}", ty) for i in range(n)))
    if c == 4:  # absent key
        return via(d, lambda e_: ("['f_z']" if cx.chance(5) else ".f_z"), dty)
    return f"{d}[{repr('f_' + chr(97 + cx.int_(0, n - 1)))}]" if cx.chance(5) else via(d, lambda e_: f"[{gen(cx, e_, I, 0)}]", dty)


# ------------------------------------------------------------------------------------------------
# data


@st.composite
def dataset(draw, max_events=3):
    """JSON description of a dataset; floats are multiples of 1/8"""
    fl = st.integers(-16, 80).map(lambda i: i / 8)
    nid = [0]

    def trk():
        nid[0] += 1
        return {"id": nid[0], "pt": draw(fl), "n": draw(st.integers(0, 4)), "good": draw(st.booleans())}

    def jet():
        nid[0] += 1
        return {"id": nid[0], "pt": draw(fl), "eta": draw(fl), "idx": draw(st.integers(0, 3)), "ok": draw(st.booleans()),
                "trks": [trk() for _ in range(draw(st.integers(0, 2)))]}

    def evt():
        nid[0] += 1
        return {"id": nid[0], "met": draw(fl), "run": draw(st.integers(0, 5)), "nums": draw(st.lists(st.integers(-3, 6), max_size=3)),
                "groups": draw(st.lists(st.lists(st.integers(-3, 6), max_size=2), max_size=2)),
                "jets": [jet() for _ in range(draw(st.integers(0, 3)))]}

    n = draw(st.integers(0, max_events))
    if draw(st.integers(0, 9)) < 7:
        n = max(n, 1)
    return [evt() for _ in range(n)]
