"""Untyped Python-expression generator (source text), shared by C10 and C20.

Every expression is syntactically valid Python; no semantic typing is attempted.  Names meaningful to python's own
ast objects are part of the attribute / variable pools on purpose.
"""
from __future__ import annotations

from hypothesis import strategies as st

AST_NAMES = ["id", "value", "attr", "ctx", "lineno", "col_offset", "args", "func", "keywords", "body", "elts",
             "slice", "op", "left", "kind", "n", "s", "keys", "values", "operand", "arg"]
PLAIN_ATTRS = ["pt", "eta", "jets", "x", "y", "Jets", "tracks", "m", "isGood", "zip", "Select2"]
PLAIN_VARS = ["e", "j", "t", "x", "evt", "a", "b"]
FUNCS = ["sin", "cos", "f", "DeltaR", "sqrt", "my_func"]
OPERATORS = ["Select", "Where", "SelectMany", "First", "Count"]


def const_text(draw, kinds="ifsb"):
    k = draw(st.sampled_from(kinds))
    if k == "i":
        return str(draw(st.one_of(st.integers(0, 9), st.integers(0, 2**70))))
    if k == "f":
        v = draw(st.floats(min_value=0.0, max_value=1e300, allow_nan=False, allow_infinity=False))
        return repr(v)
    if k == "s" and draw(st.integers(0, 5)) == 0:
        # runs of blanks / a literal tab INSIDE the quotes (text-level processing of a lambda given as a string must not touch them)
        return draw(st.sampled_from(["'pt  GeV'", "'a   b'", "'  '", "' x  y '", "'a\tb'", "'a \t b'", '"two  blanks"', "'\t'", "'a  # b'"]))
    if k == "s":
        return repr(draw(st.text(alphabet=st.sampled_from(list("abAB_ 0'\"\\\n(){}[]#,:=+-*/.éπ€\U0001F600")), max_size=6)))
    if k == "b":
        return draw(st.sampled_from(["True", "False"]))
    if k == "y":
        return repr(draw(st.binary(max_size=4)))
    if k == "c":
        return draw(st.sampled_from(["1j", "2.5j"]))
    if k == "N":
        return "None"
    if k == "E":
        return "..."
    raise ValueError(k)


class Cfg:
    def __init__(self, attrs=None, vars_=None, funcs=None, const_kinds="ifsb", forms=None, max_args=3, dict_keys=None):
        self.attrs = attrs or (PLAIN_ATTRS + AST_NAMES)
        self.vars = vars_ or (PLAIN_VARS + AST_NAMES[:8])
        self.funcs = funcs or FUNCS
        self.const_kinds = const_kinds
        self.forms = forms or ["attr", "attr", "call", "mcall", "mcall", "sub", "unary", "not", "bin", "bool", "cmp", "ifexp", "tuple",
                               "list", "dict", "lambda", "const", "name", "opcall"]
        self.max_args = max_args
        self.dict_keys = dict_keys or ["a", "b", "pt", "a b", "class", "", "1x", "id", "value", "pt  GeV", " a", "a  ", "\uff41", "**"]


@st.composite
def expr(draw, depth, bound, cfg: Cfg):
    """bound: lambda parameter names in scope (always non-empty)"""
    if depth <= 0 or draw(st.integers(0, 9)) < 1:
        k = draw(st.integers(0, 3))
        if k == 0:
            return const_text(draw, cfg.const_kinds)
        if k == 1:
            return draw(st.sampled_from(bound))
        return f"{draw(st.sampled_from(bound))}.{draw(st.sampled_from(cfg.attrs))}"
    d = depth - 1
    form = draw(st.sampled_from(cfg.forms))
    sub = lambda dd=d, b=bound: draw(expr(dd, b, cfg))  # noqa: E731
    if form == "attr":
        return f"{_paren(sub())}.{draw(st.sampled_from(cfg.attrs))}"
    if form in ("call", "mcall"):
        n = draw(st.integers(0, cfg.max_args))
        args = [sub(d - 1) for _ in range(n)]
        nk = draw(st.integers(0, 2)) if draw(st.booleans()) else 0
        kws = draw(st.lists(st.sampled_from(["a", "b", "name", "cut", "value", "kind"]), min_size=nk, max_size=nk, unique=True))
        args += [f"{k}={sub(d - 1)}" for k in kws]
        if form == "call":
            return f"{draw(st.sampled_from(cfg.funcs))}({', '.join(args)})"
        return f"{_paren(sub())}.{draw(st.sampled_from(cfg.attrs))}({', '.join(args)})"
    if form == "sub" and draw(st.integers(0, 3)) == 0:
        # a slice, any of its three parts possibly left out
        parts = [sub(d - 1) if draw(st.booleans()) else "" for _ in range(3)]
        return f"{_paren(sub())}[{parts[0]}:{parts[1]}" + (f":{parts[2]}]" if parts[2] or draw(st.booleans()) else "]")
    if form == "sub":
        return f"{_paren(sub())}[{sub(d - 1)}]"
    if form == "unary":
        k = draw(st.integers(0, 3))
        if k == 0:
            return f"(-{draw(st.integers(0, 5))})"
        return f"(-{_paren(sub())})" if k < 3 else f"(+{_paren(sub())})"
    if form == "not":
        return f"(not {sub()})"
    if form == "bin":
        return f"({sub()} {draw(st.sampled_from(['+', '-', '*', '/', '%', '**', '//']))} {sub()})"
    if form == "bool":
        op = draw(st.sampled_from([" and ", " or "]))
        return "(" + op.join(sub() for _ in range(draw(st.integers(2, 3)))) + ")"
    if form == "cmp":
        ops = draw(st.lists(st.sampled_from(["<", ">", "==", "!=", "<=", ">=", "in", "not in", "is"]), min_size=1, max_size=2))
        s = sub()
        for o in ops:
            s += f" {o} {sub()}"
        return f"({s})"
    if form == "ifexp":
        return f"({sub()} if {sub()} else {sub()})"
    if form == "tuple":
        n = draw(st.integers(0, 3))
        items = [sub() for _ in range(n)]
        return "(" + ", ".join(items) + ("," if n == 1 else "") + ")"
    if form == "list":
        return "[" + ", ".join(sub() for _ in range(draw(st.integers(0, 3)))) + "]"
    if form == "dict":
        keys = draw(st.lists(st.sampled_from(cfg.dict_keys), max_size=3, unique=True))
        # "\uff41" is an identifier that python normalizes to "a"; "**" stands for a mapping unpacked into the literal
        return "{" + ", ".join((f"**{_paren(sub())}" if k == "**" else f"{k!r}: {sub()}") for k in keys) + "}"
    if form == "lambda":
        p = draw(st.sampled_from(cfg.vars))
        body = draw(expr(d, bound + [p], cfg))
        return f"(lambda {p}: {body})"
    if form == "opcall":
        op = draw(st.sampled_from(OPERATORS))
        p = draw(st.sampled_from(cfg.vars))
        lam = f"lambda {p}: {draw(expr(d, bound + [p], cfg))}"
        recv = sub()
        if op in ("First", "Count"):
            return f"{_paren(recv)}.{op}()" if draw(st.booleans()) else f"{op}({recv})"
        return f"{_paren(recv)}.{op}({lam})" if draw(st.booleans()) else f"{op}({recv}, {lam})"
    if form == "const":
        return const_text(draw, cfg.const_kinds)
    return draw(st.sampled_from(bound))


def _paren(s: str) -> str:
    # a receiver must be a primary; numbers need parentheses before '.'
    if s and (s[0].isdigit() or s[0] in "-+" or s.startswith(("not ", "lambda "))):
        return f"({s})"
    return s
