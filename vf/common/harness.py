"""Shared runner: sharded Hypothesis search, replay tier, known findings, evidence, exit codes.

A property module (vf/props/cNN.py) exposes

    ID, RULE, ASSUMPTIONS          strings / list of strings
    BUDGET = {"quick": (shards, examples), "thorough": (shards, examples)}
    strategy(tier)  -> hypothesis strategy producing a JSON-serialisable *case*
    check(case)     -> Result      the oracle, a pure function of the case and of /repo
    selftest()      -> None        optional; raises on a harness/oracle problem (exit 2)
    exhaustive(tier)-> iterable of cases   optional bounded-exhaustive stratum
    KNOWN = {finding_id: predicate(case, result) -> bool}   optional classifiers for open findings

Every random choice is made by Hypothesis, seeded by VERIF_SEED*1000+shard.
"""
from __future__ import annotations

import hashlib
import importlib
import json
import os
import sys
import time
import traceback
from collections import Counter
from dataclasses import dataclass, field
from typing import Any, List, Optional

VERIF = os.path.dirname(os.path.dirname(os.path.dirname(os.path.abspath(__file__))))
REPO = os.environ.get("VF_REPO", "/repo")


def setup_path():
    if REPO not in sys.path:
        sys.path.insert(0, REPO)
    deps = os.path.join(VERIF, ".deps")
    if os.path.isdir(deps) and deps not in sys.path:
        sys.path.append(deps)


@dataclass
class Result:
    ok: bool = True
    msg: Optional[str] = None
    labels: List[str] = field(default_factory=list)
    nontrivial: bool = False
    key: Optional[str] = None  # canonical text used for distinctness
    sample: Any = None  # human readable rendering of the case
    ref_error: bool = False  # reference itself raised: nothing required
    known: Optional[str] = None  # id of the open known finding this failure belongs to
    counts: dict = field(default_factory=dict)  # extra counters merged into the label histogram
    extra_keys: List[str] = field(default_factory=list)  # further distinct non-trivial units (e.g. pairs) of this case

    def fail(self, msg: str) -> "Result":
        if self.ok:
            self.ok = False
            self.msg = msg
        return self


class Violation(Exception):
    pass


class HarnessError(Exception):
    pass


def reset_state():
    """State of a fresh backend process: fresh argument counter, fresh registries."""
    import func_adl.ast.function_simplifier as fs
    import func_adl.type_based_replacement as tbr

    fs.argument_var_counter = 0
    tbr.reset_global_functions()
    # mutable default arguments of the stream operators are process-level state too: empty on a fresh process
    import func_adl.object_stream as osm

    for name in ("Select", "SelectMany", "Where"):
        for d in getattr(getattr(osm.ObjectStream, name, None), "__defaults__", None) or ():
            if isinstance(d, dict):
                d.clear()


def quiet_logs():
    import logging

    logging.disable(logging.CRITICAL)
    import warnings

    warnings.simplefilter("ignore")


def case_key(case) -> str:
    return json.dumps(case, sort_keys=True, default=str)


def sha(text: str) -> str:
    return hashlib.sha1(text.encode("utf-8", "surrogatepass")).hexdigest()


def load_known(prop_id: str):
    p = os.path.join(VERIF, "known_findings.json")
    if not os.path.exists(p):
        return []
    with open(p) as f:
        allf = json.load(f)
    return [e for e in allf.get("findings", []) if e.get("property") == prop_id]


def classify_known(mod, case, res: Result, open_ids) -> Optional[str]:
    known = getattr(mod, "KNOWN", {})
    for fid in open_ids:
        pred = known.get(fid)
        if pred is None:
            continue
        try:
            if pred(case, res):
                return fid
        except Exception:
            continue
    return None


class Stats:
    def __init__(self):
        self.evaluations = 0
        self.nontrivial = set()
        self.labels = Counter()
        self.samples = {}
        self.ref_errors = 0
        self.excluded = Counter()

    def record(self, case, res: Result):
        self.evaluations += 1
        for lb in res.labels:
            self.labels[lb] += 1
        for lb, n in res.counts.items():
            self.labels[lb] += n
        for k in res.extra_keys:
            self.nontrivial.add(sha(k)[:16])
        if res.ref_error:
            self.ref_errors += 1
        if res.known:
            self.excluded[res.known] += 1
        if res.nontrivial and not res.ref_error:
            k = res.key if res.key is not None else case_key(case)
            self.nontrivial.add(sha(k)[:16])
            smp = res.sample if res.sample is not None else case
            # keep one sample per label-set, smallest rendering wins (stable, deterministic)
            lk = ",".join(sorted(res.labels))[:200]
            cur = self.samples.get(lk)
            txt = json.dumps(smp, default=str)
            if len(self.samples) < 400 or lk in self.samples:
                if cur is None or len(txt) < len(cur):
                    self.samples[lk] = txt

    def dump(self):
        return {
            "evaluations": self.evaluations,
            "nontrivial": sorted(self.nontrivial),
            "labels": dict(self.labels),
            "samples": self.samples,
            "ref_errors": self.ref_errors,
            "excluded": dict(self.excluded),
        }


CASE_TIMEOUT_S = int(os.environ.get("VF_CASE_TIMEOUT", "30"))
_TIMEOUT_VIOLATION = None


class CaseTimeout(BaseException):
    pass


def _alarm(signum, frame):
    raise CaseTimeout()


def _run_one(mod, case, stats: Stats, open_ids) -> Result:
    """One case, under a watchdog.  Ordinary cases take milliseconds; a case still running after CASE_TIMEOUT_S seconds
    means the code under test does not terminate on it - that is reported as a violation (it is not a budget limit)."""
    import signal

    global _TIMEOUT_VIOLATION
    if _TIMEOUT_VIOLATION is not None:
        # a case already hung in this shard: do not let the shrinker re-run hanging cases for minutes, fail fast instead
        res = Result(ok=False, msg=_TIMEOUT_VIOLATION["msg"], sample=case)
        stats.record(case, res)
        return res
    reset_state()
    old_handler = signal.signal(signal.SIGALRM, _alarm)
    signal.alarm(CASE_TIMEOUT_S)
    try:
        res = mod.check(case)
    except CaseTimeout:
        res = Result(ok=False, sample=case,
                     msg=f"the case did not finish within {CASE_TIMEOUT_S} s (ordinary cases take milliseconds): the code under test does not terminate")
        _TIMEOUT_VIOLATION = {"case": case, "msg": res.msg}
    except RecursionError:
        # the harness itself only recurses over trees the code under test returned: unbounded recursion means the code under
        # test recursed without end, or handed back a structure that contains itself
        res = Result(ok=False, sample=case, msg="RecursionError: the code under test recursed without end, or returned a tree that is reachable from itself")
    finally:
        signal.alarm(0)
        signal.signal(signal.SIGALRM, old_handler)
    if not res.ok:
        fid = classify_known(mod, case, res, open_ids)
        if fid is not None:
            res.known = fid
    stats.record(case, res)
    return res


def run_shard(args):
    """Worker process: one Hypothesis run (or one slice of the exhaustive stratum)."""
    prop_id, tier, seed, shard, nshards, nexamples, mode = args
    setup_path()
    quiet_logs()
    t0 = time.time()
    out = {"shard": shard, "mode": mode, "violations": [], "error": None}
    stats = Stats()
    try:
        mod = importlib.import_module(f"vf.props.{prop_id.lower()}")
        open_ids = [e["id"] for e in load_known(prop_id) if e.get("status") == "open"]
        if mode == "exhaustive":
            n = 0
            for i, case in enumerate(mod.exhaustive(tier)):
                if i % nshards != shard:
                    continue
                n += 1
                res = _run_one(mod, case, stats, open_ids)
                if not res.ok and not res.known:
                    out["violations"].append({"case": case, "msg": res.msg})
                    if len(out["violations"]) >= 3:
                        break
        else:
            from hypothesis import HealthCheck, given, seed as hseed, settings

            last = {}

            @hseed(seed * 1000 + shard)
            @settings(
                max_examples=nexamples,
                database=None,
                deadline=None,
                derandomize=False,
                report_multiple_bugs=False,
                suppress_health_check=[
                    HealthCheck.too_slow,
                    HealthCheck.data_too_large,
                    HealthCheck.large_base_example,
                ],
            )
            @given(mod.strategy(tier))
            def prop(case):
                res = _run_one(mod, case, stats, open_ids)
                if not res.ok and not res.known:
                    last["v"] = {"case": case, "msg": res.msg}
                    raise Violation(res.msg)

            try:
                prop()
            except Violation:
                out["violations"].append(last["v"])
            except Exception as e:
                # Hypothesis reports a failure that does not reproduce when the same case is run again as "flaky".  The
                # oracles are pure functions of the case, so this means the code under test keeps state between queries.
                if type(e).__name__ in ("Flaky", "FlakyFailure") and "v" in last:
                    v = dict(last["v"])
                    v["msg"] += "  [not reproducible in isolation: the outcome depends on state left behind by earlier queries in the same process]"
                    out["violations"].append(v)
                else:
                    raise
    except Exception:
        out["error"] = traceback.format_exc()
    if _TIMEOUT_VIOLATION is not None:
        out["violations"] = [_TIMEOUT_VIOLATION]  # the case that actually hung, not what the shrinker ended with
    out["stats"] = stats.dump()
    out["wall_s"] = time.time() - t0
    return out


def write_replay(prop_id: str, viol: dict, seed: int, origin: str) -> str:
    d = os.path.join(VERIF, "out", "replays", prop_id)
    os.makedirs(d, exist_ok=True)
    body = {"property": prop_id, "case": viol["case"], "msg": viol["msg"], "seed": seed, "origin": origin}
    name = sha(case_key(viol["case"]))[:12] + ".json"
    path = os.path.join(d, name)
    with open(path, "w") as f:
        json.dump(body, f, indent=1, default=str)
    return os.path.relpath(path, VERIF)


def committed_replays(prop_id: str):
    d = os.path.join(VERIF, "replays", prop_id)
    if not os.path.isdir(d):
        return []
    return sorted(os.path.join(d, f) for f in os.listdir(d) if f.endswith(".json"))


def main_run(prop_id: str, tier: str, replay: Optional[str] = None) -> int:
    setup_path()
    quiet_logs()
    seed = int(os.environ.get("VERIF_SEED", "1"))
    t0 = time.time()
    try:
        mod = importlib.import_module(f"vf.props.{prop_id.lower()}")
    except Exception:
        traceback.print_exc()
        print(f"HARNESS-ERROR property={prop_id} import failed")
        return 2

    known = load_known(prop_id)
    open_entries = [e for e in known if e.get("status") == "open"]
    open_ids = [e["id"] for e in open_entries]

    # --- single replay -------------------------------------------------------------------
    if replay is not None:
        with open(replay) as f:
            body = json.load(f)
        reset_state()
        res = mod.check(body["case"])
        if res.ok:
            print(f"replay {replay}: property holds on this case")
            return 0
        print(f"replay {replay}: {res.msg}")
        print(f"VIOLATION property={prop_id} replay={replay}")
        return 1

    # --- oracle self-validation ----------------------------------------------------------
    if hasattr(mod, "selftest"):
        try:
            reset_state()
            mod.selftest()
        except Exception:
            traceback.print_exc()
            print(f"HARNESS-ERROR property={prop_id} oracle self-test failed")
            return 2

    violations = []  # (origin, viol dict)
    known_lines = []
    replay_stats = Stats()
    n_replayed = 0

    # --- replay tier: committed witnesses ------------------------------------------------
    open_witness = {os.path.normpath(os.path.join(VERIF, e["witness"])): e for e in open_entries if e.get("witness")}
    for path in committed_replays(prop_id):
        with open(path) as f:
            body = json.load(f)
        n_replayed += 1
        try:
            reset_state()
            res = mod.check(body["case"])
        except Exception:
            traceback.print_exc()
            print(f"HARNESS-ERROR property={prop_id} replay {path} crashed the harness")
            return 2
        ent = open_witness.get(os.path.normpath(path))
        if ent is not None:
            if not res.ok:
                fid = classify_known(mod, body["case"], res, [ent["id"]])
                if fid is not None:
                    res.known = fid
                    known_lines.append(f"KNOWN-FINDING: property={prop_id} {ent['id']}: {ent['what']}")
                else:
                    violations.append(("replay:" + os.path.relpath(path, VERIF), {"case": body["case"], "msg": res.msg}))
            # a witness that now passes simply prints nothing
        elif not res.ok:
            fid = classify_known(mod, body["case"], res, open_ids)
            if fid is None:
                violations.append(("replay:" + os.path.relpath(path, VERIF), {"case": body["case"], "msg": res.msg}))
            else:
                res.known = fid
        replay_stats.record(body["case"], res)

    # --- generated search -----------------------------------------------------------------
    shards, nexamples = mod.BUDGET[tier]
    jobs = [(prop_id, tier, seed, s, shards, nexamples, "random") for s in range(shards)]
    ex_shards = 0
    if hasattr(mod, "exhaustive"):
        ex_shards = getattr(mod, "EXHAUSTIVE_SHARDS", {"quick": 8, "thorough": 16})[tier]
        jobs += [(prop_id, tier, seed, s, ex_shards, 0, "exhaustive") for s in range(ex_shards)]

    # coverage-guided supplement (thorough tier of selected properties): atheris/libFuzzer drives the same strategy + oracle
    fuzz_proc, fuzz_dir, fuzz_runs = None, None, getattr(mod, "ATHERIS_RUNS", 0) if tier == "thorough" else 0
    if fuzz_runs and not os.environ.get("VF_NO_ATHERIS"):
        import subprocess
        import tempfile

        fuzz_dir = tempfile.mkdtemp(prefix="vffuzz_")
        env = dict(os.environ, PYTHONPATH=os.pathsep.join([VERIF, os.path.join(VERIF, ".deps")]), VF_REPO=REPO)
        try:
            fuzz_proc = subprocess.Popen([sys.executable, "-m", "vf.fuzz", prop_id, tier, str(fuzz_runs), str(seed), fuzz_dir], cwd=VERIF, env=env,
                                         stdout=subprocess.DEVNULL, stderr=subprocess.DEVNULL)
        except Exception:
            fuzz_proc = None

    import multiprocessing as mp

    ctx = mp.get_context("spawn")
    nproc = min(len(jobs), int(os.environ.get("VF_PROCS", "16")))
    with ctx.Pool(nproc) as pool:
        results = pool.map(run_shard, jobs, chunksize=1)

    fuzz_info = None
    if fuzz_dir is not None:
        import shutil

        fuzz_info = {"engine": "atheris/libFuzzer via hypothesis fuzz_one_input", "runs_requested": fuzz_runs, "status": "unavailable"}
        if fuzz_proc is not None:
            try:
                fuzz_proc.wait(timeout=max(300, fuzz_runs // 20))
                fuzz_info["status"] = "completed" if fuzz_proc.returncode == 0 else f"exit {fuzz_proc.returncode}"
            except Exception:
                fuzz_proc.kill()
                fuzz_info["status"] = "stopped at the time limit (inconclusive)"
            sp, vp_ = os.path.join(fuzz_dir, "stats.json"), os.path.join(fuzz_dir, "violation.json")
            if os.path.exists(sp):
                with open(sp) as f:
                    fs = json.load(f)
                fuzz_info["evaluations"] = fs["evaluations"]
                fuzz_info["corpus_files"] = len(os.listdir(os.path.join(fuzz_dir, "corpus"))) if os.path.isdir(os.path.join(fuzz_dir, "corpus")) else 0
                results.append({"shard": "atheris", "mode": "atheris", "violations": [], "error": None, "stats": fs, "wall_s": 0})
            elif fuzz_info["status"] != "completed":
                fuzz_info["status"] = "unavailable (atheris could not be started)"
            if os.path.exists(vp_):
                with open(vp_) as f:
                    results[-1]["violations"].append(json.load(f))
        shutil.rmtree(fuzz_dir, ignore_errors=True)

    errors = [r for r in results if r["error"]]
    if errors:
        for r in errors:
            print(r["error"])
        print(f"HARNESS-ERROR property={prop_id} {len(errors)} shard(s) crashed in harness code")
        return 2

    merged = Stats()
    nontriv = set(replay_stats.nontrivial)
    labels = Counter(replay_stats.labels)
    samples = dict(replay_stats.samples)
    excluded = Counter(replay_stats.excluded)
    evaluations = replay_stats.evaluations
    ref_errors = replay_stats.ref_errors
    ex_evals = 0
    for r in results:
        s = r["stats"]
        evaluations += s["evaluations"]
        if r["mode"] == "exhaustive":
            ex_evals += s["evaluations"]
        nontriv.update(s["nontrivial"])
        labels.update(s["labels"])
        excluded.update(s["excluded"])
        ref_errors += s["ref_errors"]
        for k, v in s["samples"].items():
            if k not in samples or len(v) < len(samples[k]):
                samples[k] = v
        for v in r["violations"]:
            violations.append((f"{r['mode']}:shard{r['shard']}", v))

    # choose <= 12 samples, deterministic, spread over label sets
    keys = sorted(samples)
    step = max(1, len(keys) // 12)
    chosen = [json.loads(samples[k]) for k in keys[::step][:12]]

    for e in open_entries:
        if not any(e["id"] in ln for ln in known_lines) and excluded.get(e["id"], 0) > 0:
            known_lines.append(f"KNOWN-FINDING: property={prop_id} {e['id']}: {e['what']}")

    vlines = []
    seen = set()
    for origin, v in violations:
        k = case_key(v["case"])
        if k in seen:
            continue
        seen.add(k)
        path = write_replay(prop_id, v, seed, origin)
        vlines.append((path, v["msg"], origin))

    wall = time.time() - t0
    cov = {
        "evaluations": evaluations,
        "distinct_nontrivial": len(nontriv),
        "rule": mod.RULE,
        "samples": chosen,
        "labels": dict(sorted(labels.items(), key=lambda kv: (-kv[1], kv[0]))[:120]),
        "reference_errors": ref_errors,
        "excluded_known": dict(excluded),
        "replayed_witnesses": n_replayed,
        "shards": shards,
        "examples_per_shard": nexamples,
        "exhaustive": False,  # the property's own domain is infinite; see exhaustive_stratum for the finite part enumerated completely
    }
    if getattr(mod, "EXHAUSTIVE_NOTE", "") and ex_shards:
        cov["exhaustive_stratum"] = {"enumerated_completely": True, "what": mod.EXHAUSTIVE_NOTE, "evaluations": ex_evals}
    if fuzz_info is not None:
        cov["coverage_guided_supplement"] = fuzz_info
    ev = {
        "property_id": prop_id,
        "tier": tier,
        "seed": seed,
        "level": "exploration",
        "coverage": cov,
        "assumptions": list(mod.ASSUMPTIONS),
        "wall_s": round(wall, 2),
        "violations": len(vlines),
    }
    evdir = os.path.join(VERIF, "out", "evidence_scratch") if os.environ.get("VF_NO_EVIDENCE") else os.path.join(VERIF, "evidence")
    os.makedirs(evdir, exist_ok=True)
    with open(os.path.join(evdir, f"{prop_id}.json"), "w") as f:
        json.dump(ev, f, indent=1, default=str)

    for ln in known_lines:
        print(ln)
    print(
        f"{prop_id} tier={tier} seed={seed}: evaluations={evaluations} distinct_nontrivial={len(nontriv)} "
        f"ref_errors={ref_errors} excluded_known={sum(excluded.values())} wall={wall:.1f}s"
    )
    if vlines:
        for path, msg, origin in vlines:
            print(f"  [{origin}] {msg}")
            print(f"VIOLATION property={prop_id} replay={path}")
        return 1
    if len(nontriv) < 2:
        print(f"HARNESS-ERROR property={prop_id} generator produced <2 non-trivial cases")
        return 2
    return 0
