"""Synthesise real source modules without touching disk.

The text is registered in linecache (mtime=None entries survive checkcache: the doctest/IPython mechanism), so
inspect.findsource / inspect.getsource / tokenize work on every function and lambda defined in it.
"""
from __future__ import annotations

import itertools
import linecache
import sys
import types
from contextlib import contextmanager

_n = itertools.count()


def load(text: str, globs: dict | None = None, prefix: str = "vfgen") -> types.ModuleType:
    i = next(_n)
    name = f"{prefix}_{i}"
    fname = f"/vfgen/{name}.py"  # does not exist on disk
    if not text.endswith("\n"):
        text += "\n"
    lines = text.splitlines(keepends=True)
    linecache.cache[fname] = (len(text), None, lines, fname)
    mod = types.ModuleType(name)
    mod.__file__ = fname
    if globs:
        mod.__dict__.update(globs)
    sys.modules[name] = mod
    code = compile(text, fname, "exec", dont_inherit=True)
    exec(code, mod.__dict__)
    return mod


def load_catching(text: str, globs: dict | None = None, prefix: str = "vfgen"):
    """like load(), but an exception raised while executing the module body is returned: (module, exception or None)"""
    i = next(_n)
    name = f"{prefix}_{i}"
    fname = f"/vfgen/{name}.py"
    if not text.endswith("\n"):
        text += "\n"
    linecache.cache[fname] = (len(text), None, text.splitlines(keepends=True), fname)
    mod = types.ModuleType(name)
    mod.__file__ = fname
    if globs:
        mod.__dict__.update(globs)
    sys.modules[name] = mod
    code = compile(text, fname, "exec", dont_inherit=True)  # SyntaxError propagates: a harness problem
    try:
        exec(code, mod.__dict__)
    except Exception as e:  # noqa: BLE001
        return mod, e
    return mod, None


def unload(mod: types.ModuleType):
    linecache.cache.pop(getattr(mod, "__file__", ""), None)
    sys.modules.pop(mod.__name__, None)


@contextmanager
def module(text: str, globs: dict | None = None):
    mod = None
    try:
        mod = load(text, globs)
        yield mod
    finally:
        if mod is not None:
            unload(mod)
